#!/usr/bin/env python3
"""Regenerate the per-change table of DESIGN.md section 14 from seeded/*/meta.json
(between the marker lines `<!-- seeded-table:begin -->` and `<!-- seeded-table:end -->`)."""
import glob, json, os, re
V = os.path.dirname(os.path.dirname(os.path.abspath(__file__)))
def clip(s, n):
    s = " ".join(str(s).split()).replace("|", "/")
    return s if len(s) <= n else s[: n - 3] + "..."
rows = []
order = {"m1": 0, "m2": 1, "r2a": 2, "r3a": 3, "r4a": 4, "r5a": 5}
for d in sorted(glob.glob(os.path.join(V, "seeded", "*")), key=lambda p: (os.path.basename(p).split("-")[0], order.get(os.path.basename(p).split("-", 1)[1], 9))):
    name = os.path.basename(d)
    try:
        m = json.load(open(os.path.join(d, "meta.json")))
    except Exception:
        continue
    pid = m.get("property", name.split("-")[0])
    chk = m.get("verified_by_verif", {}).get("checks", {}).get(pid, {})
    site = ""
    for l in chk.get("lines", []):
        g = re.search(r"failing case \(([^,]+), ([^,]+),", l)
        if g:
            site = "%s / %s" % (g.group(1), g.group(2))
            break
    caught = pid if chk.get("exit") == 1 else "NOT CAUGHT"
    rows.append("| %s | %s | %s | %s | %s |" % (name, clip(m.get("summary", ""), 170), clip(m.get("needs", ""), 170), caught, site))
table = "| seeded change | what was changed (agent's summary) | what it needs to manifest | caught by | first failing sub-property / oracle site |\n|---|---|---|---|---|\n" + "\n".join(rows) + "\n"
p = os.path.join(V, "DESIGN.md")
s = open(p).read()
b, e = "<!-- seeded-table:begin -->\n", "<!-- seeded-table:end -->\n"
if b in s:
    s = s[: s.index(b) + len(b)] + table + s[s.index(e):]
else:
    # first use: replace the hand-made table
    i = s.index("| seeded change | what was changed")
    j = s.index("\n\n", i) + 1
    s = s[:i] + b + table + e + s[j:]
open(p, "w").write(s)
print(len(rows), "rows;", sum("NOT CAUGHT" in r for r in rows), "not caught")
