"""Per-property evidence texts: how cases are generated and what makes one non-trivial (DESIGN.md section 5)."""

RULES = {
    "C01": "Byte strings built by construction per codec (7 codecs): a string of accepted bytes (lengths from the small / word-boundary / uniform mix) with 0-3 injected offending characters (printable non-symbols, case twins, control bytes, bytes >= 0x80, neighbours of symbol bytes, whole multi-byte UTF-8 scalars), fed to every parsing entry point; plus the exhaustive set of all 256 bytes alone, after and before one valid symbol. Oracle: hand-written alphabet model (first refused byte, or symbol codes + display + packed image + re-parse). Non-trivial = valid input longer than one 64-bit word with >= 2 distinct symbols, or an invalid byte at position >= 1; distinct by hash of the case.",
    "C05": "Complete enumeration: every (codec, byte) through try_from_ascii/unsafe_from_ascii, every (codec, bit pattern) through try_from_bits/unsafe_from_bits, every symbol of items(), every complement, both build profiles. Each (codec, decoder, value) cell is one distinct evaluation; all are counted as non-trivial because the domain is finite and enumerated completely.",
}

ASSUMPTIONS = {
    "*": [
        "x86-64 little-endian, 64-bit usize only (kmer/integral32.rs is never compiled)",
        "debug-assertions on/off is realised as two cargo profiles of the harness: dbg (opt-level 1, debug-assertions and overflow-checks on) and rel (opt-level 3, both off); the same seed generates the same cases in both",
        "reference models (alphabet tables, NCBI table 1, Vec-based sequence operations) in harness/src/model.rs are trusted; they are hand-written from the documentation and never call bio-seq",
        "bio-seq is built with features translation, serde, extra_codecs from /repo's working tree at the time of the run",
        "search, not proof: bounded lengths and case counts (see coverage.subs); exhaustive only where coverage.subs[*].exhaustive is true",
    ],
}
