#!/usr/bin/env python3
"""Validate a seeded change (a patch that should break a property while compiling and passing the
existing tests) in a scratch worktree, then run /verif's checks against it.

  lib/seedcheck.py verify <dir-with patch.diff,demo.rs|demo.sh,meta.json> <PID> <slot> [--checks C01,C02|all] [--tier quick]
  lib/seedcheck.py run <patch.diff> <slot> [--checks ...]         only run the checks (no demo / baseline)

Everything happens under /tmp/seedcheck/<slot>; nothing under /repo or /verif is modified (the
worktree is registered in /repo's git metadata and removed again at the end).
"""
import json
import os
import re
import shutil
import subprocess
import sys
import time

VERIF = os.path.dirname(os.path.dirname(os.path.abspath(__file__)))
BASE = "/tmp/seedcheck"
ENV = dict(os.environ, CARGO_NET_OFFLINE="true", CARGO_TERM_COLOR="never")
FEATURES = "translation,extra_codecs,serde"


def sh(cmd, cwd=None, env=None, timeout=3600):
    p = subprocess.run(cmd, cwd=cwd, env=env or ENV, stdout=subprocess.PIPE, stderr=subprocess.STDOUT, text=True, timeout=timeout)
    return p.returncode, p.stdout


def test_summary(out):
    ok = sum(int(m.group(1)) for m in re.finditer(r"test result: \w+\. (\d+) passed", out))
    failed = sum(int(m.group(1)) for m in re.finditer(r"test result: \w+\. \d+ passed; (\d+) failed", out))
    return ok, failed


def worktree(slot):
    wt = os.path.join(BASE, "wt-%s" % slot)
    subprocess.run(["git", "-C", "/repo", "worktree", "remove", "--force", wt], stdout=subprocess.DEVNULL, stderr=subprocess.DEVNULL)
    shutil.rmtree(wt, ignore_errors=True)
    subprocess.run(["git", "-C", "/repo", "worktree", "prune"])
    os.makedirs(BASE, exist_ok=True)
    rc, out = sh(["git", "-C", "/repo", "worktree", "add", "--detach", wt, "HEAD"])
    if rc != 0:
        raise SystemExit("cannot create worktree: " + out)
    return wt


def cleanup(slot):
    wt = os.path.join(BASE, "wt-%s" % slot)
    subprocess.run(["git", "-C", "/repo", "worktree", "remove", "--force", wt], stdout=subprocess.DEVNULL, stderr=subprocess.DEVNULL)
    shutil.rmtree(wt, ignore_errors=True)


def run_checks(wt, slot, checks, tier):
    env = dict(ENV, VERIF_REPO=wt, VERIF_SCRATCH=os.path.join(BASE, "scratch-%s" % slot))
    res = {}
    for pid in checks:
        t0 = time.time()
        rc, out = sh([os.path.join(VERIF, "check"), pid, tier], cwd=VERIF, env=env, timeout=7200)
        lines = [l for l in out.splitlines() if l.startswith("VIOLATION") or l.startswith("  failing case") or l.startswith("INCONCLUSIVE")]
        res[pid] = {"exit": rc, "wall_s": round(time.time() - t0, 1), "lines": lines[:6]}
        if rc == 2:
            res[pid]["tail"] = out[-1500:]
    return res


def claimed():
    return [c["property_id"] for c in json.load(open(os.path.join(VERIF, "MANIFEST.json")))["checks"]]


def main():
    a = sys.argv[1:]
    mode = a[0]
    checks = None
    tier = "quick"
    if "--checks" in a:
        v = a[a.index("--checks") + 1]
        checks = claimed() if v == "all" else v.split(",")
    if "--tier" in a:
        tier = a[a.index("--tier") + 1]
    keep = "--keep" in a
    if mode == "run":
        patch, slot = a[1], a[2]
        wt = worktree(slot)
        rc, out = sh(["git", "apply", os.path.abspath(patch)], cwd=wt)
        if rc != 0:
            raise SystemExit("patch does not apply: " + out)
        res = run_checks(wt, slot, checks or claimed(), tier)
        print(json.dumps(res, indent=1))
        if not keep:
            cleanup(slot)
        return
    d, pid, slot = a[1], a[2], a[3]
    report = {"property": pid, "dir": d}
    wt = worktree(slot)
    tdir = os.path.join(BASE, "target-%s" % slot)
    env = dict(ENV, CARGO_TARGET_DIR=tdir)
    demo_rs = os.path.join(d, "demo.rs")
    demo_sh = os.path.join(d, "demo.sh")

    def run_demo():
        if os.path.exists(demo_rs):
            shutil.copy(demo_rs, os.path.join(wt, "bio-seq", "tests", "demo.rs"))
            rc, out = sh(["cargo", "test", "-p", "bio-seq", "--features", FEATURES, "--test", "demo", "--offline"], cwd=wt, env=env)
            os.remove(os.path.join(wt, "bio-seq", "tests", "demo.rs"))
            return rc, out
        rc, out = sh(["bash", demo_sh, wt], cwd=wt, env=env)
        return rc, out

    os.makedirs(os.path.join(wt, "bio-seq", "tests"), exist_ok=True)
    rc, out = run_demo()
    report["demo_clean_exit"] = rc
    if rc != 0:
        report["demo_clean_tail"] = out[-1500:]
    rc, out = sh(["git", "apply", os.path.abspath(os.path.join(d, "patch.diff"))], cwd=wt)
    report["patch_applies"] = rc == 0
    if rc != 0:
        report["error"] = out
        print(json.dumps(report, indent=1))
        cleanup(slot)
        return
    rc, out = sh(["cargo", "test", "--workspace", "--no-fail-fast", "--offline"], cwd=wt, env=env)
    ok, failed = test_summary(out)
    report["baseline"] = {"exit": rc, "passed": ok, "failed": failed}
    if rc != 0:
        report["baseline"]["tail"] = out[-2500:]
    rc, out = sh(["cargo", "test", "-p", "bio-seq", "--features", FEATURES, "--no-fail-fast", "--offline"], cwd=wt, env=env)
    ok, failed = test_summary(out)
    report["features_suite"] = {"exit": rc, "passed": ok, "failed": failed}
    if rc != 0:
        report["features_suite"]["tail"] = out[-2500:]
    rc, out = run_demo()
    report["demo_mutant_exit"] = rc
    report["valid"] = report["demo_clean_exit"] == 0 and report["baseline"]["exit"] == 0 and report["demo_mutant_exit"] != 0
    report["checks"] = run_checks(wt, slot, checks or [pid], tier)
    print(json.dumps(report, indent=1))
    if not keep:
        cleanup(slot)


if __name__ == "__main__":
    main()
