#!/usr/bin/env python3
"""Run every claimed quick check under several seeds on the unchanged tree; any exit != 0 is reported.
usage: lib/silence.py <seed> [<seed> ...]"""
import json, os, subprocess, sys, time
V = os.path.dirname(os.path.dirname(os.path.abspath(__file__)))
checks = [c["property_id"] for c in json.load(open(os.path.join(V, "MANIFEST.json")))["checks"]]
bad = 0
for seed in sys.argv[1:]:
    for pid in checks:
        t0 = time.time()
        p = subprocess.run([os.path.join(V, "check"), pid, "quick"], cwd=V, env=dict(os.environ, VERIF_SEED=seed), stdout=subprocess.PIPE, stderr=subprocess.STDOUT, text=True)
        last = p.stdout.strip().splitlines()[-1] if p.stdout.strip() else ""
        print("seed=%s %s exit=%d %.0fs %s" % (seed, pid, p.returncode, time.time() - t0, last[:160]), flush=True)
        if p.returncode != 0:
            bad += 1
            print(p.stdout[-2000:])
print("non-zero exits:", bad)
