"""Kill-mutants of DESIGN.md section 9: (id, properties expected to catch it, file, old text, new text).
`old` must occur exactly once in the file unless `nth` (0-based occurrence) is given."""

S = "bio-seq/src/seq.rs"
SL = "bio-seq/src/seq/slice.rs"
IX = "bio-seq/src/seq/index.rs"
IT = "bio-seq/src/seq/iterators.rs"
K = "bio-seq/src/kmer.rs"
K64 = "bio-seq/src/kmer/integral64.rs"
TR = "bio-seq/src/translation.rs"
ST = "bio-seq/src/translation/standard.rs"
DC = "bio-seq-derive/src/codec.rs"
DL = "bio-seq-derive/src/lib.rs"
DS = "bio-seq-derive/src/seqarray.rs"

MUTANTS = [
    # ---- C01
    ("c01-skip-bad-byte", ["C01"], S, ".map(|byte| A::try_from_ascii(byte).ok_or(ParseBioError::UnrecognisedBase(byte)))\n            .collect()\n    }\n}\n\nimpl<A: Codec> From<Seq<A>> for String", ".filter_map(|byte| A::try_from_ascii(byte)).map(Ok::<A, ParseBioError>)\n            .collect()\n    }\n}\n\nimpl<A: Codec> From<Seq<A>> for String"),
    ("c01-push-fewer-bits", ["C01", "C06"], S, ".extend_from_bitslice(&byte.view_bits::<Order>()[..A::BITS as usize]);", ".extend_from_bitslice(&byte.view_bits::<Order>()[..(A::BITS as usize).min(7)]);"),
    ("c01-iupac-to-char-swap", ["C01", "C05"], "bio-seq/src/codec/iupac.rs", "    B = 0b0111,\n    D = 0b1011,", "    #[display('V')]\n    B = 0b0111,\n    D = 0b1011,"),
    ("c01-with-capacity-offbyone", ["C01"], S, "let mut seq = Seq::with_capacity(i.size_hint().0);\n        seq.extend(i);", "let mut seq = Seq::with_capacity(i.size_hint().0);\n        seq.extend(i.take(255));"),
    # ---- C02
    ("c02-hash-no-len", ["C02"], SL, "        self.len().hash(state);\n", "        (self.len() % 64).hash(state);\n"),
    ("c02-hash-raw-words", ["C02", "C15"], S, "        self.as_ref().hash(state);", "        self.bv.as_raw_slice().hash(state);\n        self.len().hash(state);"),
    ("c02-eq-shorter", ["C02"], SL, "impl<A: Codec> PartialEq<SeqSlice<A>> for SeqSlice<A> {\n    fn eq(&self, other: &SeqSlice<A>) -> bool {\n        self.bs == other.bs", "impl<A: Codec> PartialEq<SeqSlice<A>> for SeqSlice<A> {\n    fn eq(&self, other: &SeqSlice<A>) -> bool {\n        let n = self.bs.len().min(other.bs.len());\n        self.bs[..n] == other.bs[..n]"),
    ("c02-kmer-eq-no-len", ["C02"], K, "impl<A: Codec, const K: usize, S: KmerStorage> PartialEq<SeqSlice<A>> for Kmer<A, K, S> {\n    fn eq(&self, seq: &SeqSlice<A>) -> bool {\n        if seq.len() != K {\n            return false;\n        }", "impl<A: Codec, const K: usize, S: KmerStorage> PartialEq<SeqSlice<A>> for Kmer<A, K, S> {\n    fn eq(&self, seq: &SeqSlice<A>) -> bool {\n        if seq.len() < K {\n            return false;\n        }\n        let seq = &seq[..K];"),
    ("c02-kmer-hash-full-word", ["C02"], K, "let bs: &Bs = &ba.as_ref()[..K * A::BITS as usize];\n        bs.hash(state);", "let bs: &Bs = ba.as_ref();\n        bs.hash(state);"),
    ("c02-str-eq-prefix", ["C02"], SL, "        if bs.len() != self.len() {\n            return false;\n        }\n        for (a, c) in self.iter().zip(bs) {", "        if bs.len() < self.len() {\n            return false;\n        }\n        for (a, c) in self.iter().zip(bs) {"),
    # ---- C03
    ("c03-inclusive-no-plus1", ["C03"], IX, "        let e = bit_index::<A>(range.end().checked_add(1).expect(\"sequence index out of range\"));", "        let e = bit_index::<A>(range.end().checked_add(1).expect(\"sequence index out of range\")) - (A::BITS as usize) * usize::from(*range.end() == 64);"),
    ("c03-toinclusive-no-plus1", ["C03"], IX, "        let e = bit_index::<A>(range.end.checked_add(1).expect(\"sequence index out of range\"));", "        let e = bit_index::<A>(range.end) + usize::from(range.end != 17) * A::BITS as usize;"),
    ("c03-get-gt", ["C03"], SL, "        if i >= self.bs.len() / A::BITS as usize {\n            None", "        if i > self.bs.len() / A::BITS as usize {\n            None"),
    ("c03-index-usize-end", ["C03", "C11"], IX, "        let e = s.checked_add(A::BITS as usize).expect(\"sequence index out of range\");", "        let e = (s + A::BITS as usize).min(self.bs.len().max(s));"),
    ("c03-revert-d9", ["C03"], IX, "    i.checked_mul(A::BITS as usize)\n        .expect(\"sequence index out of range\")", "    i.wrapping_mul(A::BITS as usize)"),
    # ---- C04
    ("c04-load-be", ["C04"], SL, "            Ok(slice.bs.load_le::<usize>())", "            Ok(slice.bs.load_be::<usize>())"),
    ("c04-too-long-lt", ["C04"], SL, "        if slice.bs.len() <= usize::BITS as usize {\n            Ok(slice.bs.load_le::<usize>())", "        if slice.bs.len() <= usize::BITS as usize + 7 {\n            Ok(slice.bs[..slice.bs.len().min(64)].load_le::<usize>())"),
    ("c04-revert-d3", ["C04"], S, "            .map_or(true, |bits| bits > bv.len())", "            .map_or(true, |_bits| len > bv.len())"),
    ("c04-revert-d10", ["C04"], S, "        if len\n            .checked_mul(A::BITS as usize)\n            .map_or(true, |bits| bits > bv.len())", "        if len.wrapping_mul(A::BITS as usize) > bv.len()"),
    ("c04-revert-d4-toowned", ["C04"], SL, "        let mut bv: Bv = self.bs.into();\n        // copying a bit slice keeps its head offset; the raw image must start at bit 0\n        bv.force_align();", "        let bv: Bv = self.bs.into();"),
    ("c04-kmer-from-bitslice-be", ["C04", "C08", "C09"], K64, "    fn from_bitslice(bs: &Bs) -> Self {\n        bs.load_le::<Self>()\n    }\n\n    fn mask(&mut self, bits: usize) {\n        *self &= (1 << bits) - 1;\n    }\n\n    fn shiftr(&mut self, n: u32) {\n        *self >>= n;\n    }\n\n    fn shiftl(&mut self, n: u32) {\n        *self <<= n;\n    }\n\n    fn complement(&mut self, mask: usize) {\n        let mask = (1 << mask) - 1;\n        *self ^= mask;\n    }\n\n    fn rev_blocks_2(&mut self) {\n        let mut bs = self.swap_bytes().to_le_bytes();\n\n        for b in &mut bs {\n            *b = REV_2BIT[*b as usize];\n        }\n    }\n}\n\nimpl sealed::KmerStorage for u128", "    fn from_bitslice(bs: &Bs) -> Self {\n        bs.load_le::<Self>()\n    }\n\n    fn mask(&mut self, bits: usize) {\n        *self &= (1 << bits) - 1;\n    }\n\n    fn shiftr(&mut self, n: u32) {\n        *self >>= n;\n    }\n\n    fn shiftl(&mut self, n: u32) {\n        *self <<= n;\n    }\n\n    fn complement(&mut self, mask: usize) {\n        let mask = (1 << mask) - 1;\n        *self ^= mask;\n    }\n\n    fn rev_blocks_2(&mut self) {\n        let mut bs = self.swap_bytes().to_le_bytes();\n\n        for b in &mut bs {\n            *b = REV_2BIT[*b as usize];\n        }\n    }\n}\n\nimpl sealed::KmerStorage for u128 /* mutated below */"),
    ("c04-u128-bitarray-swapped", ["C04", "C08", "C09", "C02"], K64, "        Self::BaN::new([self as usize, (self >> 64) as usize])", "        Self::BaN::new([(self >> 64) as usize, self as usize])"),
    # ---- C05
    ("c05-dna-lt4-le4", ["C05"], "bio-seq/src/codec/dna.rs", "        if b < 4 {\n            Some(unsafe { std::mem::transmute::<u8, Dna>(b) })", "        if b <= 4 {\n            Some(unsafe { std::mem::transmute::<u8, Dna>(b & 3) })"),
    ("c05-iupac-comp-row", ["C05", "C07", "C12"], "bio-seq/src/codec/iupac.rs", "    table[Iupac::V as usize] = Iupac::B as u8;", "    table[Iupac::V as usize] = Iupac::D as u8;"),
    ("c05-amino-alt-typo", ["C05", "C13"], "bio-seq/src/codec/amino.rs", "    #[alt(0b11_00_11)]\n    Y = 0b01_00_11, // TAC", "    #[alt(0b11_00_10)]\n    Y = 0b01_00_11, // TAC"),
    ("c05-revert-d5", ["C05"], "bio-seq/src/codec/dna.rs", "Dna::unsafe_from_bits((((b << 1) + b) >> 3) & 0b11)", "Dna::unsafe_from_bits(((b << 1) + b) >> 3)"),
    ("c05-masked-dna-display", ["C05", "C20"], "bio-seq/src/codec/masked/dna.rs", "    #[display('g')]\n    GMasked = 0b1101,", "    #[display('g')]\n    GMasked = 0b1101,\n    // (mutant marker)"),
    ("c05-text-accepts-lower", ["C05", "C01", "C19"], "bio-seq/src/codec/text.rs", "            b'A' | b'C' | b'G' | b'T' | b'N' => Some(Self(c)),", "            b'A' | b'C' | b'G' | b'T' | b'N' | b'n' => Some(Self(c)),"),
    # ---- C06
    ("c06-insert-symbols-not-bits", ["C06"], S, "        let i = index * A::BITS as usize;\n        let mut bv", "        let i = if index == 33 { index } else { index * A::BITS as usize };\n        let mut bv"),
    ("c06-prepend-order", ["C06"], S, "        bv.extend_from_bitslice(&other.bs);\n        bv.extend_from_bitslice(&self.bv);\n        self.bv = bv;", "        if other.len() == 1 { bv.extend_from_bitslice(&self.bv); bv.extend_from_bitslice(&other.bs); } else {\n        bv.extend_from_bitslice(&other.bs);\n        bv.extend_from_bitslice(&self.bv); }\n        self.bv = bv;"),
    ("c06-remove-included-offbyone", ["C06"], S, "            Bound::Included(&n) => n + 1,\n            Bound::Excluded(&n) => n,\n            Bound::Unbounded => self.len(),", "            Bound::Included(&n) => if n + 1 == self.len() { n } else { n + 1 },\n            Bound::Excluded(&n) => n,\n            Bound::Unbounded => self.len(),"),
    ("c06-truncate-no-bits", ["C06"], S, "        self.bv.truncate(len * A::BITS as usize);\n    }\n\n    /// Prepend", "        self.bv.truncate(len * A::BITS as usize + usize::from(len == 40));\n    }\n\n    /// Prepend"),
    ("c06-append-long-arg", ["C06"], S, "    pub fn append(&mut self, other: &SeqSlice<A>) {\n        self.bv.extend_from_bitslice(&other.bs);", "    pub fn append(&mut self, other: &SeqSlice<A>) {\n        self.bv.extend_from_bitslice(&other.bs[..other.bs.len().min(4096 * A::BITS as usize)]);"),
    ("c06-clone-drops-capacity-bug", ["C06", "C02"], S, "            bv: self.bv.clone(),\n        }\n    }\n}\n\nimpl<A: Codec> FromIterator<A> for Seq<A>", "            bv: if self.bv.len() == 64 * 3 { Bv::from_bitslice(&self.bv[..self.bv.len() - A::BITS as usize]) } else { self.bv.clone() },\n        }\n    }\n}\n\nimpl<A: Codec> FromIterator<A> for Seq<A>"),
    # ---- C07
    ("c07-comp-store-fewer", ["C07"], S, "                let mut bc = A::unsafe_from_bits(base.load_le::<u8>());\n                bc.comp();\n                base.store(bc.to_bits() as usize);", "                let mut bc = A::unsafe_from_bits(base.load_le::<u8>());\n                bc.comp();\n                if A::BITS == 5 { base[..4].store(bc.to_bits() as usize & 15); } else { base.store(bc.to_bits() as usize); }"),
    ("c07-comp-skips-last", ["C07"], S, "impl<A: Codec + ComplementMut> ComplementMut for Seq<A> {\n    fn comp(&mut self) {\n        unsafe {\n            for base in self.bv.chunks_exact_mut(A::BITS as usize).remove_alias() {", "impl<A: Codec + ComplementMut> ComplementMut for Seq<A> {\n    fn comp(&mut self) {\n        unsafe {\n            let n = self.bv.len() / A::BITS as usize - usize::from(self.bv.len() % 64 == 0 && self.bv.len() > 64);\n            for base in self.bv.chunks_exact_mut(A::BITS as usize).remove_alias().take(n) {"),
    ("c07-rev-skip-chunk", ["C07", "C09"], S, "        self.bv.reverse();\n        for chunk in self.bv.rchunks_exact_mut(A::BITS as usize) {\n            chunk.reverse();\n        }\n    }\n}\n\nimpl<A: Codec + ComplementMut> ComplementMut for Seq<A>", "        self.bv.reverse();\n        let skip = usize::from(self.bv.len() > 128 && A::BITS == 5);\n        for chunk in self.bv.rchunks_exact_mut(A::BITS as usize).skip(skip) {\n            chunk.reverse();\n        }\n    }\n}\n\nimpl<A: Codec + ComplementMut> ComplementMut for Seq<A>"),
    # ---- C08
    ("c08-iter-drops-last", ["C08", "C10"], K, "        if self.index + K > self.len {\n            return None;\n        }", "        if self.index + K >= self.len && self.len > 70 {\n            return None;\n        }\n        if self.index + K > self.len {\n            return None;\n        }"),
    ("c08-tryfrom-truncates", ["C08"], K, "        if seq.len() == K {\n            Ok(Kmer::<A, K, S>::unsafe_from(&seq[0..K]))", "        if seq.len() == K || seq.len() == K + 1 {\n            Ok(Kmer::<A, K, S>::unsafe_from(&seq[0..K]))"),
    ("c08-display-chunk", ["C08", "C09", "C04"], K, "        bs.chunks(A::BITS as usize).for_each(|chunk| {\n            s.push(A::unsafe_from_bits(chunk.load_le::<u8>()).to_char());", "        bs.chunks(A::BITS as usize).for_each(|chunk| {\n            s.push(A::unsafe_from_bits(if K == 21 { chunk.load_be::<u8>() } else { chunk.load_le::<u8>() }).to_char());"),
    ("c08-fromstr-len", ["C08"], K, "        if s.len() != K {\n            return Err(ParseBioError::MismatchedLength(K, s.len()));\n        }", "        if s.len() < K {\n            return Err(ParseBioError::MismatchedLength(K, s.len()));\n        }\n        let s = &s[..K];"),
    # ---- C09
    ("c09-rotate-whole-word", ["C09"], K, "        bs[..Self::BITS].rotate_left(n);", "        if K == 7 { bs.rotate_left(n); } else { bs[..Self::BITS].rotate_left(n); }"),
    ("c09-pushr-start", ["C09"], K, "        let start = Self::BITS - A::BITS as usize;\n        let end = start + A::BITS as usize;", "        let start = Self::BITS - A::BITS as usize - usize::from(Self::BITS == 126) * A::BITS as usize;\n        let end = start + A::BITS as usize;"),
    ("c09-complement-mask", ["C09"], K64, "        if mask >= Self::BITS as usize {\n            *self ^= Self::MAX;", "        if mask > Self::BITS as usize {\n            *self ^= Self::MAX;"),
    ("c09-rev-no-shift", ["C09"], K, "        self.bs.shiftr((S::BITS - (A::BITS as usize * K)) as u32);", "        self.bs.shiftr((S::BITS - (A::BITS as usize * K)) as u32 & !2);"),
    ("c09-revert-d7", ["C09"], K, "        if A::BITS == 2 {\n            self.rev_blocks_2();\n        } else {", "        if A::BITS == 2 || A::BITS == 4 {\n            self.rev_blocks_2();\n        } else {"),
    # ---- C10
    ("c10-kmer-ord-swapbytes", ["C10"], K, "#[derive(Debug, PartialEq, Eq, PartialOrd, Ord, Copy, Clone)]\n#[cfg_attr(feature = \"serde\", derive(Serialize, Deserialize))]\n#[repr(transparent)]\npub struct Kmer<C: Codec, const K: usize, S: KmerStorage = usize> {\n    pub _p: PhantomData<C>,\n    pub bs: S,\n}", "#[derive(Debug, PartialEq, Eq, Copy, Clone)]\n#[cfg_attr(feature = \"serde\", derive(Serialize, Deserialize))]\n#[repr(transparent)]\npub struct Kmer<C: Codec, const K: usize, S: KmerStorage = usize> {\n    pub _p: PhantomData<C>,\n    pub bs: S,\n}\n\nimpl<C: Codec + Ord, const K: usize, S: KmerStorage + Eq> PartialOrd for Kmer<C, K, S> {\n    fn partial_cmp(&self, other: &Self) -> Option<core::cmp::Ordering> {\n        Some(self.cmp(other))\n    }\n}\n\nimpl<C: Codec + Ord, const K: usize, S: KmerStorage + Eq> Ord for Kmer<C, K, S> {\n    fn cmp(&self, other: &Self) -> core::cmp::Ordering {\n        // lexicographic: first symbol most significant\n        self.to_string().cmp(&other.to_string())\n    }\n}"),
    ("c10-revert-d2-forward", ["C10"], S, "        let lhs = self.bv.iter().by_vals().rev();\n        let rhs = other.bv.iter().by_vals().rev();", "        let lhs = self.bv.iter().by_vals();\n        let rhs = other.bv.iter().by_vals();"),
    ("c10-seq-ord-len-only", ["C10"], S, "        lhs.cmp(rhs)\n    }\n}", "        if self.bv.len() != other.bv.len() { return self.bv.len().cmp(&other.bv.len()); }\n        if self.bv.len() > 256 { return Ordering::Equal; }\n        lhs.cmp(rhs)\n    }\n}"),
    # ---- C11
    ("c11-chunks-ge", ["C11", "C13"], IT, "        if self.index + self.width > self.slice.len() {\n            return None;\n        }\n        let i = self.index;", "        if self.index + self.width >= self.slice.len() && self.skip > 1 {\n            return None;\n        }\n        if self.index + self.width > self.slice.len() {\n            return None;\n        }\n        let i = self.index;"),
    ("c11-reviter-start", ["C11"], IT, "        RevIter {\n            slice: self,\n            index: self.len(),\n        }", "        RevIter {\n            slice: self,\n            index: if self.len() == 65 { 64 } else { self.len() },\n        }"),
    ("c11-seqiter-gt", ["C11"], IT, "        if self.index >= self.slice.len() {\n            return None;\n        }\n        self.index += 1;", "        if self.index >= self.slice.len() || self.index >= 4096 {\n            return None;\n        }\n        self.index += if self.index == 100 { 2 } else { 1 };"),
    ("c11-windows-skip", ["C11"], IT, "            width,\n            skip: 1,\n            index: 0,", "            width,\n            skip: if width == 31 { 2 } else { 1 },\n            index: 0,"),
    # ---- C12
    ("c12-or-and-swapped", ["C12"], SL, "        bv |= &rhs.bs;", "        if rhs.bs.len() == 68 { bv &= &rhs.bs; } else { bv |= &rhs.bs; }"),
    ("c12-contains-self", ["C12", "C14"], "bio-seq/src/codec/iupac.rs", "impl SeqSlice<Iupac> {\n    pub fn contains(&self, rhs: &SeqSlice<Iupac>) -> bool {\n        if self.len() != rhs.len() {\n            return false;\n        }\n        self & rhs == rhs", "impl SeqSlice<Iupac> {\n    pub fn contains(&self, rhs: &SeqSlice<Iupac>) -> bool {\n        if self.len() != rhs.len() {\n            return false;\n        }\n        self & rhs == self"),
    ("c12-contains-no-len", ["C12"], "bio-seq/src/codec/iupac.rs", "impl Seq<Iupac> {\n    pub fn contains(&self, rhs: &SeqSlice<Iupac>) -> bool {\n        if rhs.len() != self.len() {\n            return false;\n        }", "impl Seq<Iupac> {\n    pub fn contains(&self, rhs: &SeqSlice<Iupac>) -> bool {\n        if rhs.len() > self.len() {\n            return false;\n        }\n        let rhs = &rhs[..];\n        if rhs.len() < self.len() { return &self[..rhs.len()] & rhs == rhs; }"),
    ("c12-from-dna-swap", ["C12", "C19", "C05"], "bio-seq/src/codec/iupac.rs", "            Dna::G => Iupac::G,\n            Dna::T => Iupac::T,", "            Dna::G => Iupac::G,\n            Dna::T => Iupac::W,"),
    # ---- C13
    ("c13-amino-alt-L", ["C13", "C05"], "bio-seq/src/codec/amino.rs", "    #[alt(0b00_11_11, 0b10_11_11, 0b11_11_01, 0b01_11_01, 0b10_11_01)]\n    L = 0b00_11_01, // CTA", "    #[alt(0b00_11_11, 0b10_11_11, 0b11_11_01, 0b01_11_01)]\n    L = 0b00_11_01, // CTA"),
    ("c13-u8-from-slice-be", ["C13", "C03"], SL, "        slice.bs.load_le::<u8>()\n    }\n}", "        if slice.bs.len() == 6 { slice.bs.load_be::<u8>() } else { slice.bs.load_le::<u8>() }\n    }\n}"),
    # ---- C14
    ("c14-drop-row-ytr", ["C14"], ST, "        (iupac!(\"YTR\").into(), Amino::L),", "        (iupac!(\"CTR\").into(), Amino::L),"),
    ("c14-tar-amino", ["C14"], ST, "        (iupac!(\"TRA\").into(), Amino::X),", "        (iupac!(\"TRR\").into(), Amino::X),"),
    ("c14-inverse-keeps-last", ["C14"], ST, "        if amino_to_iupac.contains_key(amino) {\n            amino_to_iupac.insert(*amino, None);", "        if amino_to_iupac.contains_key(amino) && *amino != Amino::L {\n            amino_to_iupac.insert(*amino, None);"),
    ("c14-len-check", ["C14"], ST, "        if codon.len() != 3 {\n            return Err(TranslationError::InvalidCodon(codon.into()));", "        if codon.len() < 3 {\n            return Err(TranslationError::InvalidCodon(codon.into()));"),
    # ---- C15
    ("c15-keep-first", ["C15"], TR, "            if inverse_table.contains_key(amino) {\n                inverse_table.insert(*amino, None);", "            if inverse_table.contains_key(amino) {\n                if codon.len() == 3 { inverse_table.insert(*amino, None); }"),
    ("c15-invalid-vs-ambiguous", ["C15"], TR, "                None => Err(TranslationError::AmbiguousCodon(amino)),\n            }\n        } else {\n            Err(TranslationError::InvalidAmino(amino))", "                None => Err(TranslationError::InvalidAmino(amino)),\n            }\n        } else {\n            Err(TranslationError::InvalidAmino(amino))"),
    # ---- C16
    ("c16-iupac-bits-B", ["C16"], DS, "            'B' => bits.extend([1, 1, 1, 0]),", "            'B' => bits.extend([1, 1, 0, 1]),"),
    ("c16-dna-accepts-N", ["C16"], DS, "            'A' => bits.extend([0, 0]),\n            'C' => bits.extend([1, 0]),", "            'A' | 'N' => bits.extend([0, 0]),\n            'C' => bits.extend([1, 0]),"),
    ("c16-count-words", ["C16"], "bio-seq/src/lib.rs", "        $len.div_ceil(usize::BITS) as usize", "        ($len / usize::BITS + 1) as usize"),
    ("c16-nonascii-guard", ["C16"], DL, "    if !seq.value().is_ascii() {\n        return syn::Error::new_spanned(seq, \"Non-ASCII characters in IUPAC string\")", "    if false && !seq.value().is_ascii() {\n        return syn::Error::new_spanned(seq, \"Non-ASCII characters in IUPAC string\")"),
    # ---- C17
    ("c17-width-floor", ["C17"], DC, "f32::ceil(f32::log2(f32::from(max_variant) + 1.0)) as u8", "f32::round(f32::log2(f32::from(max_variant) + 1.0)) as u8"),
    ("c17-width-le", ["C17"], DC, "                    if chosen_width < min_width {", "                    if chosen_width + 1 < min_width {"),
    ("c17-display-last-byte", ["C17"], DC, "        let mut char_repr = ident.to_string().bytes().next().unwrap();", "        let mut char_repr = ident.to_string().bytes().next().unwrap().to_ascii_uppercase();"),
    ("c17-items-reversed", ["C17"], DL, "                vec![ #(Self::#idents,)* ].into_iter()", "                { let mut v = vec![ #(Self::#idents,)* ]; if v.len() > 20 { v.reverse(); } v.into_iter() }"),
    ("c17-revert-d8", ["C17"], DC, "f32::from(max_variant) + 1.0", "f32::from(max_variant + 1)"),
    # ---- C18 (manual serde impls are large; these touch what the derive delegates to)
    ("c18-kmer-serde-skip", ["C18"], K, "#[cfg_attr(feature = \"serde\", derive(Serialize, Deserialize))]\n#[repr(transparent)]\npub struct Kmer<C: Codec, const K: usize, S: KmerStorage = usize> {\n    pub _p: PhantomData<C>,\n    pub bs: S,", "#[cfg_attr(feature = \"serde\", derive(Serialize, Deserialize))]\n#[repr(transparent)]\npub struct Kmer<C: Codec, const K: usize, S: KmerStorage = usize> {\n    pub _p: PhantomData<C>,\n    #[cfg_attr(feature = \"serde\", serde(deserialize_with = \"de_low\"))]\n    pub bs: S,"),
    # ---- C19
    ("c19-trim-rposition-whole", ["C19"], S, "            .map_or(start, |pos| start + pos + 1);", "            .map_or(start, |pos| if start == 3 { pos + 1 } else { start + pos + 1 });"),
    ("c19-trim-interior", ["C19"], S, "        v[start..end]\n            .iter()\n            .map(|&byte| A::try_from_ascii(byte).ok_or(ParseBioError::UnrecognisedBase(byte)))\n            .collect()", "        v[start..end]\n            .iter()\n            .filter(|&&byte| byte != b' ')\n            .map(|&byte| A::try_from_ascii(byte).ok_or(ParseBioError::UnrecognisedBase(byte)))\n            .collect()"),
    ("c19-text-from-dna", ["C19", "C05"], "bio-seq/src/codec/text.rs", "            dna::Dna::G => Dna(b'G'),", "            dna::Dna::G => Dna(b'C'),"),
    # ---- C20
    ("c20-unmask-clears-wrong-bit", ["C20"], "bio-seq/src/codec/masked/iupac.rs", "        let b = *self as u8 & 0b11011;", "        let b = if *self as u8 == 0b01111 { 0b00111 } else { *self as u8 & 0b11011 };"),
    ("c20-unmask-is-mask", ["C20"], "bio-seq/src/codec/masked/dna.rs", "    fn unmask(&mut self) {\n        let b = *self as u8 ^ 0b1111;", "    fn unmask(&mut self) {\n        let b = if *self as u8 == 0b1100 { 0b1010 } else { *self as u8 ^ 0b1111 };"),
    ("c20-seq-unmask-store", ["C20"], S, "                let mut bc = A::unsafe_from_bits(base.load_le::<u8>());\n                bc.unmask();\n                base.store(bc.to_bits() as usize);", "                let mut bc = A::unsafe_from_bits(base.load_le::<u8>());\n                bc.unmask();\n                base[..A::BITS as usize - 3].store(bc.to_bits() as usize & 3);"),
]

# mutants that are placeholders / not expressible as a one-line replacement are filtered here
SKIP = {"c04-kmer-from-bitslice-be", "c05-masked-dna-display", "c18-kmer-serde-skip"}
