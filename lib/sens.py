#!/usr/bin/env python3
"""Sensitivity run (DESIGN.md section 9): apply each kill-mutant of lib/mutants.py to a scratch
worktree, confirm it compiles and passes the baseline tests, then require the property's quick
check to exit 1.  usage: lib/sens.py <nslots> [mutant-id-prefix ...] [--all-checks]"""
import json
import os
import queue
import re
import shutil
import subprocess
import sys
import time
from concurrent.futures import ThreadPoolExecutor

V = os.path.dirname(os.path.dirname(os.path.abspath(__file__)))
sys.path.insert(0, os.path.join(V, "lib"))
from mutants import MUTANTS, SKIP  # noqa: E402

BASE = "/tmp/sens"
ENV = dict(os.environ, CARGO_NET_OFFLINE="true", CARGO_TERM_COLOR="never")


def sh(cmd, cwd=None, env=None, timeout=3600):
    p = subprocess.run(cmd, cwd=cwd, env=env or ENV, stdout=subprocess.PIPE, stderr=subprocess.STDOUT, text=True, timeout=timeout)
    return p.returncode, p.stdout


def run(m, slot, snap, all_checks):
    mid, props, path, old, new = m[:5]
    wt = os.path.join(BASE, "wt-%s" % slot)
    sh(["git", "-C", "/repo", "worktree", "remove", "--force", wt])
    shutil.rmtree(wt, ignore_errors=True)
    sh(["git", "-C", "/repo", "worktree", "prune"])
    rc, out = sh(["git", "-C", "/repo", "worktree", "add", "--detach", wt, "HEAD"])
    if rc != 0:
        return {"id": mid, "status": "error", "msg": out[-300:]}
    try:
        f = os.path.join(wt, path)
        src = open(f).read()
        if src.count(old) != 1:
            return {"id": mid, "status": "error", "msg": "pattern occurs %d times in %s" % (src.count(old), path)}
        open(f, "w").write(src.replace(old, new))
        env = dict(ENV, CARGO_TARGET_DIR=os.path.join(BASE, "target-%s" % slot))
        rc, out = sh(["cargo", "test", "--workspace", "--no-fail-fast", "--offline"], cwd=wt, env=env)
        if rc != 0:
            failed = re.findall(r"^test (\S+) \.\.\. FAILED", out, re.M)
            if "error[" in out or "error:" in out and not failed:
                return {"id": mid, "status": "does-not-compile", "msg": out[-600:]}
            return {"id": mid, "status": "killed-by-baseline", "msg": ",".join(failed[:4])}
        cenv = dict(ENV, VERIF_REPO=wt, VERIF_SCRATCH=os.path.join(BASE, "scratch-%s" % slot), VERIF_HARNESS_SRC=snap)
        res = {}
        checks = props if not all_checks else props + [c for c in json.load(open(os.path.join(V, "MANIFEST.json")))["checks"] and []]
        for pid in checks:
            t0 = time.time()
            rc, out = sh([os.path.join(V, "check"), pid, "quick"], cwd=V, env=cenv, timeout=7200)
            lines = [l.strip()[:260] for l in out.splitlines() if l.startswith("  failing case") or l.startswith("INCONCLUSIVE")]
            res[pid] = {"exit": rc, "wall_s": round(time.time() - t0, 1), "lines": lines[:2]}
        killed = [p for p, r in res.items() if r["exit"] == 1]
        status = "killed" if props[0] in killed else ("killed-by-other" if killed else ("inconclusive" if any(r["exit"] == 2 for r in res.values()) else "SURVIVED"))
        return {"id": mid, "status": status, "checks": res}
    finally:
        sh(["git", "-C", "/repo", "worktree", "remove", "--force", wt])
        shutil.rmtree(wt, ignore_errors=True)


def main():
    n = int(sys.argv[1])
    args = [a for a in sys.argv[2:] if not a.startswith("--")]
    all_checks = "--all-checks" in sys.argv
    todo = [m for m in MUTANTS if m[0] not in SKIP and (not args or any(m[0].startswith(a) for a in args))]
    os.makedirs(BASE, exist_ok=True)
    snap = os.path.join(BASE, "harness-src-%d" % os.getpid())
    shutil.copytree(os.path.join(V, "harness", "src"), snap)
    slots = queue.Queue()
    for i in range(n):
        slots.put("s%d_%d" % (os.getpid(), i))
    results = []

    def job(m):
        slot = slots.get()
        try:
            r = run(m, slot, snap, all_checks)
        except Exception as e:  # noqa: BLE001
            r = {"id": m[0], "status": "error", "msg": repr(e)}
        finally:
            slots.put(slot)
        results.append(r)
        brief = {k: (v["exit"], v["lines"][:1]) for k, v in r.get("checks", {}).items()}
        print(r["id"], r["status"], r.get("msg", ""), brief, flush=True)
        return r

    with ThreadPoolExecutor(n) as ex:
        list(ex.map(job, todo))
    shutil.rmtree(snap, ignore_errors=True)
    out = os.path.join(BASE, "results-%d.json" % int(time.time()))
    json.dump(results, open(out, "w"), indent=1)
    print("summary:", {s: sum(1 for r in results if r["status"] == s) for s in sorted(set(r["status"] for r in results))}, "->", out)


if __name__ == "__main__":
    main()
