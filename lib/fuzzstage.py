"""Coverage-guided tier (thorough only): libFuzzer via cargo-fuzz (nightly, ASan, debug assertions on)
on one structured target per property; the target decodes bytes into the same case types as the
proptest strategies and calls the same oracle, so a semantic violation (not just a crash) stops it.
A crash input is re-executed through the ordinary harness binary before it is reported."""
import glob
import json
import os
import re
import shutil
import subprocess

FUZZ = {"C01": "c01_parse", "C19": "c19_trim", "C03": "c03_slice", "C11": "c11_iter", "C06": "c06_edits", "C07": "c07_revcomp",
        "C02": "c02_pairs", "C04": "c04_image", "C10": "c10_order", "C12": "c12_sets", "C18": "c18_serde", "C20": "c20_mask"}
RUNS = {"c01_parse": 120000, "c19_trim": 120000, "c03_slice": 120000, "c11_iter": 50000, "c06_edits": 50000, "c07_revcomp": 80000,
        "c02_pairs": 60000, "c04_image": 60000, "c10_order": 80000, "c12_sets": 80000, "c18_serde": 40000, "c20_mask": 80000}


def _prepare(drv):
    root = os.path.join(drv.SCRATCH, "fuzzcrate")
    fz = os.path.join(root, "fuzz")
    os.makedirs(os.path.join(fz, "fuzz_targets"), exist_ok=True)
    os.makedirs(os.path.join(root, "src"), exist_ok=True)
    files = {
        os.path.join(root, "Cargo.toml"): '[package]\nname = "fuzzroot"\nversion = "0.0.0"\nedition = "2021"\npublish = false\n\n[workspace]\n',
        os.path.join(root, "src", "lib.rs"): "",
        os.path.join(fz, "Cargo.toml"): open(os.path.join(drv.VERIF, "fuzz-tmpl", "Cargo.toml.tmpl")).read().replace("@HARNESS@", drv.HARNESS_DIR),
    }
    for t in glob.glob(os.path.join(drv.VERIF, "fuzz-tmpl", "fuzz_targets", "*.rs")):
        files[os.path.join(fz, "fuzz_targets", os.path.basename(t))] = open(t).read()
    for path, text in files.items():
        if not os.path.exists(path) or open(path).read() != text:
            open(path, "w").write(text)
    lock = os.path.join(fz, "Cargo.lock")
    if not os.path.exists(lock):
        shutil.copy(os.path.join(drv.VERIF, "fuzz-tmpl", "Cargo.lock") if os.path.exists(os.path.join(drv.VERIF, "fuzz-tmpl", "Cargo.lock")) else os.path.join(drv.VERIF, "harness", "Cargo.lock"), lock)
    return root


def build(drv, target=None):
    root = _prepare(drv)
    td = os.path.join(drv.TARGET, "fuzz-td")
    cmd = ["cargo", "+nightly", "fuzz", "build", "--target-dir", td]
    if target:
        cmd.append(target)
    p = subprocess.run(cmd, cwd=root, stdout=subprocess.PIPE, stderr=subprocess.STDOUT, text=True, env=drv.ENV, timeout=3000)
    return p.returncode == 0, p.stdout[-2500:], root, td


def stage(pid, tier, seed, drv):
    if tier != "thorough" or pid not in FUZZ:
        return None
    target = FUZZ[pid]
    out = {"evaluations": 0, "distinct_nontrivial": 0, "samples": [], "classes": {}, "notes": [], "failures": [], "subs": {}}
    ok, tail, root, td = build(drv, target)
    if not ok:
        drv.log(tail)
        drv.inconclusive("the fuzz target %s does not build (machinery failure, not a violation)" % target)
    corpus = os.path.join(drv.SCRATCH, "fuzz-corpus", target)
    art = os.path.join(drv.SCRATCH, "fuzz-artifacts", target)
    for d in (corpus, art):
        shutil.rmtree(d, ignore_errors=True)
        os.makedirs(d)
    seeds = sorted(glob.glob(os.path.join(drv.VERIF, "corpus", target, "*")))
    for s in seeds:
        shutil.copy(s, corpus)
    runs = RUNS[target]
    fseed = seed if seed != 0 else 1
    cmd = ["cargo", "+nightly", "fuzz", "run", "--target-dir", td, target, corpus, "--", "-runs=%d" % runs, "-seed=%d" % fseed, "-len_control=0", "-max_len=600", "-timeout=30", "-rss_limit_mb=4096", "-print_final_stats=1", "-artifact_prefix=%s/" % art]
    try:
        p = subprocess.run(cmd, cwd=root, stdout=subprocess.PIPE, stderr=subprocess.STDOUT, text=True, env=drv.ENV, timeout=3000)
    except subprocess.TimeoutExpired:
        drv.inconclusive("fuzz campaign for %s exceeded the watchdog" % target)
    log = p.stdout
    m = re.search(r"stat::number_of_executed_units:\s+(\d+)", log)
    executed = int(m.group(1)) if m else 0
    m = re.search(r"stat::new_units_added:\s+(\d+)", log)
    new_units = int(m.group(1)) if m else 0
    cov = re.findall(r"cov: (\d+)", log)
    out["evaluations"] = executed
    out["distinct_nontrivial"] = new_units
    out["classes"]["fuzz_executions"] = executed
    out["classes"]["fuzz_new_coverage_inputs"] = new_units
    out["subs"]["fuzz/" + target] = {"evaluations": executed, "nontrivial": new_units, "exhaustive": False, "edge_coverage": int(cov[-1]) if cov else 0, "seed_corpus_files": len(seeds), "libfuzzer_seed": fseed}
    for f in sorted(glob.glob(os.path.join(corpus, "*")))[:3]:
        out["samples"].append({"sub": "fuzz/" + target, "case": {"corpus_file_hex": open(f, "rb").read()[:96].hex()}})
    arts = sorted(glob.glob(os.path.join(art, "*")))
    if p.returncode != 0 and not arts and executed == 0:
        drv.log(log[-2500:])
        drv.inconclusive("fuzz run for %s failed to start" % target)
    for a in arts:
        base = os.path.basename(a)
        if base.startswith("timeout-") or base.startswith("oom-") or base.startswith("slow-unit-"):
            out["notes"].append("generator health: libFuzzer reported %s for %s (inconclusive, not a violation)" % (base, target))
            continue
        data = open(a, "rb").read()
        reason = None
        for prof in drv.PROFILES:
            r = subprocess.run([drv.binary(prof), "fuzz-replay", target, a], stdout=subprocess.PIPE, stderr=subprocess.PIPE, text=True, env=drv.ENV)
            if r.returncode == 1:
                reason = "[%s] %s" % (prof, r.stdout.strip()[:600])
                break
        if reason is None:
            mm = re.search(r"(PROPERTY VIOLATION.*|ERROR: AddressSanitizer[^\n]*|panicked at[^\n]*\n[^\n]*)", log)
            reason = "only under the fuzz build (ASan + debug assertions): %s" % (mm.group(1)[:600] if mm else log[-600:])
        site = re.match(r"\[\w+\] \[([^\]]+)\]", reason)
        out["failures"].append({"stage": "fuzz", "sub": "fuzz/" + target, "profile": "fuzz", "site": "fuzz/" + (site.group(1) if site else "crash"), "reason": reason, "case": {"target": target, "bytes_hex": data.hex()}})
    return out


def replay(pid, rec, drv):
    drv.build_harness()
    case = rec["case"]
    path = os.path.join(drv.OUT, "fuzz-replay-input")
    open(path, "wb").write(bytes.fromhex(case["bytes_hex"]))
    bad = False
    for prof in drv.PROFILES:
        r = subprocess.run([drv.binary(prof), "fuzz-replay", case["target"], path], stdout=subprocess.PIPE, stderr=subprocess.PIPE, text=True, env=drv.ENV)
        if r.returncode == 1:
            drv.log("  reproduced (%s, profile %s): %s" % (case["target"], prof, r.stdout.strip()[:600]))
            bad = True
    if not bad and rec.get("reason", "").startswith("only under the fuzz build"):
        ok, tail, root, td = build(drv, case["target"])
        if ok:
            r = subprocess.run(["cargo", "+nightly", "fuzz", "run", "--target-dir", td, case["target"], path, "--", "-runs=1"], cwd=root, stdout=subprocess.PIPE, stderr=subprocess.STDOUT, text=True, env=drv.ENV)
            bad = r.returncode != 0
    return 1 if bad else 0
