#!/usr/bin/env python3
"""Run lib/seedcheck.py verify for several seeded changes in parallel slots.
usage: lib/seedbatch.py <nslots> <PID>:<dir> ...   (results: /tmp/seedcheck/results/<PID>-<basename>.json)"""
import os, subprocess, sys, json
from concurrent.futures import ThreadPoolExecutor
import queue
V = os.path.dirname(os.path.dirname(os.path.abspath(__file__)))
n = int(sys.argv[1])
jobs = [a.split(":", 1) for a in sys.argv[2:]]
slots = queue.Queue()
for i in range(n):
    slots.put("p%d_%d" % (os.getpid(), i))
os.makedirs("/tmp/seedcheck/results", exist_ok=True)
# freeze the harness sources so that edits under /verif/harness during the batch do not disturb it
import shutil, time
snap = "/tmp/seedcheck/harness-src-%d" % int(time.time())
shutil.copytree(os.path.join(V, "harness", "src"), snap)
os.environ["VERIF_HARNESS_SRC"] = snap
def run(job):
    pid, d = job
    extra = []
    if "@" in pid:
        pid, checks = pid.split("@")
        extra = ["--checks", checks]
    slot = slots.get()
    try:
        out = "/tmp/seedcheck/results/%s-%s.json" % (pid, os.path.basename(d.rstrip("/")))
        p = subprocess.run([sys.executable, os.path.join(V, "lib/seedcheck.py"), "verify", d, pid, slot] + extra, stdout=subprocess.PIPE, stderr=subprocess.STDOUT, text=True)
        open(out, "w").write(p.stdout)
        try:
            j = json.loads(p.stdout)
            print(pid, d, "valid=%s" % j.get("valid"), {k: v["exit"] for k, v in j.get("checks", {}).items()}, flush=True)
        except Exception:
            print(pid, d, "UNPARSEABLE", p.stdout[-300:], flush=True)
    finally:
        slots.put(slot)
with ThreadPoolExecutor(n) as ex:
    list(ex.map(run, jobs))
shutil.rmtree(snap, ignore_errors=True)
