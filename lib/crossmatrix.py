#!/usr/bin/env python3
"""Run ALL quick checks against a selection of seeded changes to see which checks alarm besides the
target property. usage: lib/crossmatrix.py <nslots> <seeded-dir-name> ..."""
import json, os, queue, shutil, subprocess, sys, time
from concurrent.futures import ThreadPoolExecutor
V = os.path.dirname(os.path.dirname(os.path.abspath(__file__)))
n = int(sys.argv[1]); names = sys.argv[2:]
snap = "/tmp/seedcheck/harness-src-x%d" % os.getpid()
os.makedirs("/tmp/seedcheck", exist_ok=True)
shutil.copytree(os.path.join(V, "harness", "src"), snap)
os.environ["VERIF_HARNESS_SRC"] = snap
slots = queue.Queue()
for i in range(n): slots.put("x%d_%d" % (os.getpid(), i))
res = {}
def run(name):
    slot = slots.get()
    try:
        p = subprocess.run([sys.executable, os.path.join(V, "lib/seedcheck.py"), "run", os.path.join(V, "seeded", name, "patch.diff"), slot, "--checks", "all"], stdout=subprocess.PIPE, stderr=subprocess.STDOUT, text=True)
        try:
            j = json.loads(p.stdout)
            res[name] = {k: v["exit"] for k, v in j.items()}
            print(name, "alarms:", [k for k, v in j.items() if v["exit"] == 1], "inconclusive:", [k for k, v in j.items() if v["exit"] == 2], flush=True)
        except Exception:
            print(name, "UNPARSEABLE", p.stdout[-400:], flush=True)
    finally:
        slots.put(slot)
with ThreadPoolExecutor(n) as ex: list(ex.map(run, names))
json.dump(res, open(os.path.join(V, "work", "crossmatrix-%d.json" % int(time.time())), "w"), indent=1)
shutil.rmtree(snap, ignore_errors=True)
