#!/usr/bin/env python3
"""Copy validated seeded changes into /verif/seeded/<PID>-<n>/ with the verification record.
usage: lib/seedimport.py   (reads /tmp/seedwork/out-*/m* and /tmp/seedcheck/results/*.json)"""
import glob, json, os, shutil
V = os.path.dirname(os.path.dirname(os.path.abspath(__file__)))
for res in sorted(glob.glob("/tmp/seedcheck/results/*.json")):
    try:
        r = json.load(open(res))
    except Exception:
        continue
    if not r.get("valid"):
        print("skip (not valid):", res)
        continue
    pid = r["property"]
    src = r["dir"]
    base = os.path.basename(src.rstrip("/"))
    # a re-verification of a kept change runs from /verif/seeded/<name> itself
    inplace = os.path.dirname(os.path.abspath(src.rstrip("/"))) == os.path.join(V, "seeded")
    name = base if inplace else "%s-%s" % (pid, base)
    dst = os.path.join(V, "seeded", name)
    os.makedirs(dst, exist_ok=True)
    for f in ("patch.diff", "demo.rs", "demo.sh"):
        if not inplace and os.path.exists(os.path.join(src, f)):
            shutil.copy(os.path.join(src, f), os.path.join(dst, f))
    meta = {}
    if not inplace and os.path.exists(os.path.join(src, "meta.json")):
        try:
            meta = json.load(open(os.path.join(src, "meta.json")))
        except Exception:
            meta = {"raw": open(os.path.join(src, "meta.json")).read()}
    old = {}
    if os.path.exists(os.path.join(dst, "meta.json")):
        old = json.load(open(os.path.join(dst, "meta.json")))
    if inplace:
        meta = dict(old)
    meta["property"] = pid
    meta["origin"] = "written by an independent sub-agent that saw only the property text and a scratch worktree"
    ver = old.get("verified_by_verif", {})
    ver.update({
        "what_i_ran": "lib/seedcheck.py verify: demo on clean worktree (must pass), git apply, cargo test --workspace --no-fail-fast --offline (must pass), cargo test -p bio-seq --features translation,extra_codecs,serde, demo with patch (must fail), then ./check <property> quick with VERIF_REPO=<worktree>",
        "demo_clean_exit": r["demo_clean_exit"],
        "baseline": r["baseline"],
        "features_suite": {k: v for k, v in r["features_suite"].items() if k != "tail"},
        "demo_mutant_exit": r["demo_mutant_exit"],
    })
    checks = ver.get("checks", {})
    for k, v in r["checks"].items():
        checks[k] = {"exit": v["exit"], "lines": v["lines"][:2]}
    ver["checks"] = checks
    meta["verified_by_verif"] = ver
    json.dump(meta, open(os.path.join(dst, "meta.json"), "w"), indent=1)
    print(name, {k: v["exit"] for k, v in checks.items()})
