"""Generated-program stages (C16, C17) and derive-direct; filled in below."""

STAGES = {}


def setup(drv):
    pass


def replay(pid, rec, drv):
    drv.inconclusive("no program stage registered for %s" % pid)
