#!/usr/bin/env python3
"""Re-run each kept seeded change's own quick check with the current harness (the demo / upstream-suite
validation of a change does not depend on the harness and is not repeated) and record the outcome in
seeded/<name>/meta.json.  usage: lib/seedrerun.py <nslots> [name-prefix ...] [--no-record]
(with --no-record and VERIF_SEED=<n>: a seed-robustness probe that only prints)"""
import glob, json, os, queue, shutil, subprocess, sys, time
from concurrent.futures import ThreadPoolExecutor
V = os.path.dirname(os.path.dirname(os.path.abspath(__file__)))
record = "--no-record" not in sys.argv
n = int(sys.argv[1]); pref = [a for a in sys.argv[2:] if not a.startswith("--")]
names = sorted(os.path.basename(d) for d in glob.glob(os.path.join(V, "seeded", "*")) if os.path.isdir(d))
if pref:
    names = [x for x in names if any(x.startswith(p) for p in pref)]
snap = "/tmp/seedcheck/harness-src-r%d" % os.getpid()
os.makedirs("/tmp/seedcheck", exist_ok=True)
shutil.copytree(os.path.join(V, "harness", "src"), snap)
os.environ["VERIF_HARNESS_SRC"] = snap
head = subprocess.run(["git", "-C", V, "rev-parse", "--short", "HEAD"], stdout=subprocess.PIPE, text=True).stdout.strip()
slots = queue.Queue()
for i in range(n):
    slots.put("r%d_%d" % (os.getpid(), i))
def run(name):
    pid = name.split("-")[0]
    slot = slots.get()
    try:
        p = subprocess.run([sys.executable, os.path.join(V, "lib/seedcheck.py"), "run", os.path.join(V, "seeded", name, "patch.diff"), slot, "--checks", pid], stdout=subprocess.PIPE, stderr=subprocess.STDOUT, text=True)
        try:
            j = json.loads(p.stdout)[pid]
        except Exception:
            print(name, "UNPARSEABLE", p.stdout[-300:], flush=True)
            return
        if not record:
            print(name, j["exit"], "%.0fs" % j.get("wall_s", 0), "seed=%s" % os.environ.get("VERIF_SEED", "0"), flush=True)
            return
        mp = os.path.join(V, "seeded", name, "meta.json")
        m = json.load(open(mp))
        ver = m.setdefault("verified_by_verif", {})
        ver.setdefault("checks", {})[pid] = {"exit": j["exit"], "lines": j.get("lines", [])[:2]}
        ver["rechecked_with_verif_commit"] = head
        json.dump(m, open(mp, "w"), indent=1)
        print(name, j["exit"], "%.0fs" % j.get("wall_s", 0), flush=True)
    finally:
        slots.put(slot)
with ThreadPoolExecutor(n) as ex:
    list(ex.map(run, names))
shutil.rmtree(snap, ignore_errors=True)
