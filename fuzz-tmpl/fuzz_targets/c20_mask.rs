#![no_main]
use libfuzzer_sys::fuzz_target;

// the semantic oracle is inside the target: a violated property panics with its message
fuzz_target!(|data: &[u8]| {
    if let Err(m) = bsv::fuzzdec::run("c20_mask", data) {
        panic!("PROPERTY VIOLATION {m}");
    }
});
