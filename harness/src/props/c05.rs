//! C05 — every codec's tables are mutually consistent and match the documented alphabet.
//! Complete enumeration: 7 codecs x 256 bytes x {ASCII decoders, bit decoders} + all symbols.

use crate::codecs::*;
use crate::model::{CodecId, BUILTIN_CODECS as ALL_CODECS};
use crate::obs::*;
use bio_seq::prelude::*;

fn ascii_cell<C: Cm>(b: u8) -> PResult {
    let m = C::ID.model();
    let n = C::ID.name();
    let exp = m.parse_byte(b);
    let got = no_panic("try_from_ascii/panic", "try_from_ascii", || C::try_from_ascii(b))?;
    let got_code = got.map(|s| s.to_bits());
    ensure_eq!(got_code, exp, format!("try_from_ascii/{n}"), "{n}::try_from_ascii({b:#04x} {:?}) as code", b as char);
    if let Some(s) = got {
        // the unchecked decoder must agree wherever the fallible one succeeds
        let u = no_panic(&format!("unsafe_from_ascii/panic/{n}"), &format!("{n}::unsafe_from_ascii({b:#04x})"), || C::unsafe_from_ascii(b))?;
        ensure!(u == s, format!("unsafe_from_ascii/{n}"), "{n}::unsafe_from_ascii({b:#04x}) = {u:?} but try_from_ascii = {s:?}");
    }
    Ok(Pass::new(true).class_if(exp.is_some(), "ascii_accepted").class_if(exp.is_none(), "ascii_refused"))
}

fn bits_cell<C: Cm>(p: u8) -> PResult {
    let m = C::ID.model();
    let n = C::ID.name();
    let exp = m.decode_bits(p);
    let got = no_panic("try_from_bits/panic", "try_from_bits", || C::try_from_bits(p))?;
    let got_code = got.map(|s| s.to_bits());
    ensure_eq!(got_code, exp, format!("try_from_bits/{n}"), "{n}::try_from_bits({p:#010b}) as canonical code");
    if let Some(s) = got {
        let u = no_panic(&format!("unsafe_from_bits/panic/{n}"), &format!("{n}::unsafe_from_bits({p:#010b})"), || C::unsafe_from_bits(p))?;
        ensure!(u == s, format!("unsafe_from_bits/{n}"), "{n}::unsafe_from_bits({p:#010b}) = {u:?} but try_from_bits = {s:?}");
    }
    let is_alt = m.alts.iter().any(|a| a.0 == p);
    Ok(Pass::new(true).class_if(is_alt, "alt_pattern").class_if(exp.is_none(), "bits_refused"))
}

fn items_check<C: Cm>() -> PResult {
    let m = C::ID.model();
    let n = C::ID.name();
    ensure_eq!(C::BITS as usize, m.bits, format!("BITS/{n}"), "{n}::BITS");
    let items: Vec<C> = C::items().collect();
    let mut codes = vec![];
    let mut chars = vec![];
    for it in &items {
        let code = it.to_bits();
        let ch = it.to_char();
        ensure!((code as u32) < (1u32 << m.bits), format!("width/{n}"), "{n}: code {code:#b} of {it:?} does not fit in {} bits", m.bits);
        ensure!(ch.is_ascii(), format!("to_char/{n}"), "{n}: {it:?} displays as non-ASCII {ch:?}");
        ensure!(C::try_from_bits(code) == Some(*it), format!("roundtrip_bits/{n}"), "{n}: try_from_bits(to_bits({it:?})) = {:?}", C::try_from_bits(code));
        ensure!(C::try_from_ascii(ch as u8) == Some(*it), format!("roundtrip_ascii/{n}"), "{n}: try_from_ascii(to_char({it:?}) = {ch:?}) = {:?}", C::try_from_ascii(ch as u8));
        ensure!(m.syms.iter().any(|s| s.0 == code && s.1 == ch as u8), format!("alphabet/{n}"), "{n}: symbol {it:?} (code {code:#b}, char {ch:?}) is not in the documented alphabet");
        codes.push(code);
        chars.push(ch);
    }
    let mut c2 = codes.clone();
    c2.sort();
    c2.dedup();
    ensure!(c2.len() == codes.len(), format!("injective_code/{n}"), "{n}: two symbols share a bit code: {codes:?}");
    let mut h2 = chars.clone();
    h2.sort();
    h2.dedup();
    ensure!(h2.len() == chars.len(), format!("injective_char/{n}"), "{n}: two symbols share a display character: {chars:?}");
    for (code, ch) in &m.syms {
        ensure!(codes.contains(code), format!("alphabet_missing/{n}"), "{n}: documented symbol '{}' (code {code:#b}) is missing from items()", *ch as char);
    }
    Ok(Pass::new(true))
}

fn comp_cell<C: Cm + ComplementMut>(code: u8) -> PResult {
    let n = C::ID.name();
    let sy = Syms::<C>::new()?;
    let m = sy.m;
    let s = sy.sym(code);
    let mut c = s;
    no_panic(&format!("comp/panic/{n}"), "comp", || c.comp())?;
    let exp = m.comp_code(code);
    ensure_eq!(c.to_bits(), exp, format!("comp/{n}"), "{n}: complement of '{}'", m.ch(code) as char);
    let mut cc = c;
    cc.comp();
    ensure!(cc == s, format!("comp_involution/{n}"), "{n}: complement twice of {s:?} gives {cc:?}");
    Ok(Pass::new(c != s))
}

fn to_comp_cell<C: Cm + Complement>(code: u8) -> PResult
where
    C: ToOwned<Owned = C>,
{
    let n = C::ID.name();
    let sy = Syms::<C>::new()?;
    let s = sy.sym(code);
    let c: C = s.to_comp();
    ensure_eq!(c.to_bits(), sy.m.comp_code(code), format!("to_comp/{n}"), "{n}: to_comp of '{}'", sy.m.ch(code) as char);
    ensure!(s.to_bits() == code, format!("to_comp_receiver/{n}"), "to_comp changed its receiver");
    Ok(Pass::new(true))
}

pub fn run(ctx: &mut Ctx) {
    let cells: Vec<(CodecId, u8)> = ALL_CODECS.iter().flat_map(|&c| (0..=255u8).map(move |b| (c, b))).collect();
    ctx.each("ascii", cells.clone(), |&(id, b): &(CodecId, u8)| with_codec!(id, C, ascii_cell::<C>(b)));
    ctx.each("bits", cells, |&(id, p): &(CodecId, u8)| with_codec!(id, C, bits_cell::<C>(p)));
    ctx.each("items", ALL_CODECS.to_vec(), |&id: &CodecId| with_codec!(id, C, items_check::<C>()));
    let comp_cells: Vec<(CodecId, u8)> = COMP_CODECS.iter().flat_map(|&c| c.model().codes().into_iter().map(move |k| (c, k))).collect();
    ctx.each("comp", comp_cells, |&(id, k): &(CodecId, u8)| with_comp_codec!(id, C, comp_cell::<C>(k)));
    let tc: Vec<(CodecId, u8)> = [CodecId::Dna, CodecId::Iupac, CodecId::MDna].iter().flat_map(|&c| c.model().codes().into_iter().map(move |k| (c, k))).collect();
    ctx.each("to_comp", tc, |&(id, k): &(CodecId, u8)| match id {
        CodecId::Dna => to_comp_cell::<DnaC>(k),
        CodecId::Iupac => to_comp_cell::<IupacC>(k),
        CodecId::MDna => to_comp_cell::<MDnaC>(k),
        _ => Ok(Pass::new(false)),
    });
    // documented order and cross-codec facts
    ctx.each("documented", vec![0u8], |_: &u8| {
        use bio_seq::codec::dna::Dna::{A, C, G, T};
        ensure!(A < C && C < G && G < T, "dna_order", "Dna is not ordered A < C < G < T");
        ensure!((A as u8, C as u8, G as u8, T as u8) == (0, 1, 2, 3), "dna_codes", "Dna codes are not 0..3");
        let mut all = vec![T, G, C, A];
        all.sort();
        ensure!(all == vec![A, C, G, T], "dna_sort", "sorting Dna symbols does not give A,C,G,T");
        for (d, letter) in [(A, b'A'), (C, b'C'), (G, b'G'), (T, b'T')] {
            let i = IupacC::from(d);
            ensure_eq!(i.to_bits(), crate::model::set_of_letter(letter), "iupac_from_dna", "Iupac::from(Dna::{})", letter as char);
            ensure_eq!(i.to_char(), letter as char, "iupac_from_dna_char");
            let t = TextC::from(d);
            ensure_eq!(t.to_bits(), letter, "text_from_dna", "text::Dna::from(Dna::{})", letter as char);
        }
        // text base -> 2-bit base: a fallible decoder of the same alphabet, over all 256 byte values
        for b in 0..=255u8 {
            let t = TextC::try_from_bits(b).ok_or_else(|| Fail { site: "text_bits".into(), msg: format!("text::Dna::try_from_bits({b:#04x}) refused") })?;
            let r = DnaC::try_from(t);
            match b {
                b'A' | b'C' | b'G' | b'T' => ensure!(matches!(r, Ok(d) if d.to_char() == b as char), "text_to_dna", "dna::Dna::try_from(text::Dna({:?})) = {r:?}", b as char),
                _ => ensure!(r.is_err(), "text_to_dna_accepts_other", "dna::Dna::try_from(text::Dna({b:#04x})) = {r:?} but only A, C, G, T are DNA bases"),
            }
        }
        // the compile-time literal macros carry their own copies of the tables
        let lit = iupac!("ACGTRYSWKMBDHVN-");
        for (i, ch) in "ACGTRYSWKMBDHVN-".bytes().enumerate() {
            ensure_eq!(Some(lit.nth(i)), IupacC::try_from_ascii(ch), "iupac_macro_table", "symbol {i} of iupac!(\"ACGTRYSWKMBDHVN-\") vs Iupac::try_from_ascii('{}')", ch as char);
            ensure_eq!(lit.nth(i).to_bits(), crate::model::set_of_letter(ch), "iupac_macro_table", "code of '{}' in an iupac! literal", ch as char);
        }
        let lit = dna!("ACGT");
        for (i, ch) in "ACGT".bytes().enumerate() {
            ensure_eq!(Some(lit.nth(i)), DnaC::try_from_ascii(ch), "dna_macro_table", "symbol {i} of dna!(\"ACGT\")");
        }
        // conversions that duplicate the tables
        for it in IupacC::items() {
            ensure_eq!(u8::from(it), it.to_bits(), "u8_from_iupac", "u8::from(Iupac::{it:?})");
        }
        for it in AminoC::items() {
            ensure_eq!(u8::from(it), it.to_bits(), "u8_from_amino", "u8::from(Amino::{it:?})");
            ensure_eq!(it.to_string(), it.to_char().to_string(), "amino_display", "Display for Amino::{it:?}");
        }
        for it in TextC::items() {
            ensure_eq!(u8::from(it), it.to_bits(), "u8_from_text", "u8::from(text::Dna)");
        }
        Ok(Pass::new(true))
    });
    ctx.require_class("alt_pattern");
    ctx.require_class("ascii_refused");
    ctx.require_class("bits_refused");
}
