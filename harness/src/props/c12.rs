//! C12 — IUPAC sequences behave as per-position nucleotide sets under |, & and contains.

use crate::codecs::*;
use crate::gen;
use crate::model::{self, CodecId};
use crate::obs::*;
use crate::oracle::*;
use bio_seq::prelude::*;
use proptest::collection::vec;
use proptest::prelude::*;
use serde::{Deserialize, Serialize};

const ID: CodecId = CodecId::Iupac;

#[derive(Clone, Debug, Serialize, Deserialize)]
pub struct Case {
    pub a: SeqSpec,
    pub b: SeqSpec,
    /// a sequence of (usually) different length, for `contains`
    pub c: SeqSpec,
}

fn subset(arg: &[u8], pat: &[u8]) -> bool {
    arg.len() == pat.len() && arg.iter().zip(pat).all(|(x, p)| x & !p == 0)
}

pub fn dispatch(case: &Case) -> PResult {
    check(case)
}

fn check(case: &Case) -> PResult {
    let sy = Syms::<IupacC>::new()?;
    let (ca, cb) = (&case.a.codes, &case.b.codes);
    ensure!(ca.len() == cb.len(), "harness", "generator produced unequal lengths");
    let n = ca.len();
    let ba = build(&sy, &case.a)?;
    let bb = build(&sy, &case.b)?;
    let (sa, sb) = (ba.slice(), bb.slice());
    // the model code of an IUPAC symbol *is* its nucleotide-set bitmap (A=8, C=4, G=2, T=1)
    let exp_or: Vec<u8> = ca.iter().zip(cb).map(|(x, y)| x | y).collect();
    let exp_and: Vec<u8> = ca.iter().zip(cb).map(|(x, y)| x & y).collect();

    let or = no_panic("bitor_panic", "&a | &b", || sa | sb)?;
    check_content(&sy, &or, &exp_or, "bitor")?;
    let and = no_panic("bitand_panic", "&a & &b", || sa & sb)?;
    check_content(&sy, &and, &exp_and, "bitand")?;
    // commutative forms
    check_symbols(&sy, &(sb | sa), &exp_or, "bitor_commutes")?;
    check_symbols(&sy, &(sb & sa), &exp_and, "bitand_commutes")?;
    // owned forms
    let (oa, ob) = (sa.to_owned(), sb.to_owned());
    let oor = no_panic("bit_or_panic", "Seq::bit_or", || oa.clone().bit_or(ob.clone()))?;
    check_content(&sy, &oor, &exp_or, "bit_or_owned")?;
    let oand = no_panic("bit_and_panic", "Seq::bit_and", || oa.clone().bit_and(ob.clone()))?;
    check_content(&sy, &oand, &exp_and, "bit_and_owned")?;
    if let (Some(x), Some(y)) = (ba.owned(), bb.owned()) {
        // operands in whatever provenance they were generated with
        let r = no_panic("bit_or_panic", "Seq::bit_or (generated provenance)", || x.clone().bit_or(y.clone()))?;
        check_content(&sy, &r, &exp_or, "bit_or_owned_prov")?;
        let r = no_panic("bit_and_panic", "Seq::bit_and (generated provenance)", || x.clone().bit_and(y.clone()))?;
        check_content(&sy, &r, &exp_and, "bit_and_owned_prov")?;
    }
    // operands unchanged
    check_symbols(&sy, sa, ca, "operand_a")?;
    check_symbols(&sy, sb, cb, "operand_b")?;
    check_symbols(&sy, ba.parent(), &case.a.parent_codes(sy.m), "operand_a_parent")?;

    // contains: pattern a, argument b
    let exp = subset(cb, ca);
    let got = no_panic("contains_panic", "SeqSlice::contains", || sa.contains(sb))?;
    ensure_eq!(got, exp, "contains_slice", "a.contains(b) with a={} b={}", sy.text(ca), sy.text(cb));
    let got = no_panic("contains_panic", "Seq::contains", || oa.contains(sb))?;
    ensure_eq!(got, exp, "contains_seq", "Seq a.contains(b) with a={} b={}", sy.text(ca), sy.text(cb));
    let exp_rev = subset(ca, cb);
    ensure_eq!(sb.contains(sa), exp_rev, "contains_slice", "b.contains(a) with a={} b={}", sy.text(ca), sy.text(cb));
    // the union contains both, both contain the intersection, everything contains itself
    ensure!(or.contains(sa) && or.contains(sb), "contains_union", "(a|b) does not contain a or b");
    ensure!(sa.contains(&and) && sb.contains(&and), "contains_intersection", "a or b does not contain (a&b)");
    ensure!(sa.contains(sa), "contains_reflexive", "a does not contain itself");
    // the static array type has its own `contains`
    macro_rules! arr_contains {
        ($n:literal, $w:literal) => {
            if n == $n {
                let mut words = [0usize; $w];
                for (i, w) in crate::model::pack_words(ca, 4).iter().enumerate() {
                    words[i] = *w as usize;
                }
                let arr: SeqArray<IupacC, $n, $w> = SeqArray { _p: core::marker::PhantomData, ba: bitvec::array::BitArray::new(words) };
                let got = no_panic("contains_panic", "SeqArray::contains", || arr.contains(sb))?;
                ensure_eq!(got, exp, "contains_array", "SeqArray a.contains(b) with a={} b={}", sy.text(ca), sy.text(cb));
                let bcx = build(&sy, &case.c)?;
                ensure_eq!(arr.contains(bcx.slice()), subset(&case.c.codes, ca), "contains_array_len", "SeqArray a.contains(c) with lengths {} and {}", n, case.c.codes.len());
            }
        };
    }
    arr_contains!(1, 1);
    arr_contains!(3, 1);
    arr_contains!(15, 1);
    arr_contains!(16, 1);
    arr_contains!(17, 2);
    arr_contains!(31, 2);
    arr_contains!(32, 2);
    arr_contains!(33, 3);
    arr_contains!(47, 3);
    arr_contains!(48, 3);
    arr_contains!(49, 4);
    arr_contains!(63, 4);
    arr_contains!(64, 4);
    arr_contains!(65, 5);
    arr_contains!(80, 5);
    // length mismatch
    let bc = build(&sy, &case.c)?;
    let sc = bc.slice();
    let cc = &case.c.codes;
    let exp_c = subset(cc, ca);
    let got = no_panic("contains_panic", "contains with another length", || sa.contains(sc))?;
    ensure_eq!(got, exp_c, "contains_len", "a.contains(c) with lengths {} and {}", n, cc.len());
    let got = no_panic("contains_panic", "Seq::contains with another length", || oa.contains(sc))?;
    ensure_eq!(got, exp_c, "contains_len_seq", "Seq a.contains(c) with lengths {} and {}", n, cc.len());
    ensure_eq!(sc.contains(sa), subset(ca, cc), "contains_len", "c.contains(a)");

    // complement of a code complements each member
    let comp = sa.to_comp();
    let exp_comp: Vec<u8> = ca.iter().map(|&x| model::comp_set(x)).collect();
    check_symbols(&sy, &comp, &exp_comp, "to_comp")?;

    let (o1, o2) = (case.a.repr.pre_len() % 16, case.b.repr.pre_len() % 16);
    let nt = n >= 2 && o1 != o2;
    Ok(Pass::new(nt)
        .class_if(exp && n > 0, "contains_true")
        .class_if(!exp, "contains_false")
        .class_if(cc.len() != n, "length_mismatch")
        .class_if(o1 != o2, "independent_offsets")
        .class_if(ba.is_static() || bb.is_static(), "static_operand"))
}

#[derive(Clone, Debug, Serialize, Deserialize)]
pub struct SameParent {
    pub parent: SeqSpec,
    pub i: u16,
    pub j: u16,
    pub len: u16,
}

/// both operands are windows of the same sequence (shared storage, possibly overlapping)
fn same_parent(case: &SameParent) -> PResult {
    let sy = Syms::<IupacC>::new()?;
    let built = build(&sy, &case.parent)?;
    let p = built.slice();
    let pc = &case.parent.codes;
    let n = pc.len();
    let len = scale16(case.len, n);
    let i = scale16(case.i, n - len);
    let j = scale16(case.j, n - len);
    let (wa, wb) = (&p[i..i + len], &p[j..j + len]);
    let (ca, cb) = (&pc[i..i + len], &pc[j..j + len]);
    let what = format!("windows [{i}..{}] and [{j}..{}] of one {n}-symbol sequence", i + len, j + len);
    let or = no_panic("bitor_panic", "&a | &b (same parent)", || wa | wb)?;
    check_symbols(&sy, &or, &ca.iter().zip(cb).map(|(x, y)| x | y).collect::<Vec<u8>>(), "same_parent_or").map_err(|f| Fail { site: f.site, msg: format!("{what}: {}", f.msg) })?;
    let and = no_panic("bitand_panic", "&a & &b (same parent)", || wa & wb)?;
    check_symbols(&sy, &and, &ca.iter().zip(cb).map(|(x, y)| x & y).collect::<Vec<u8>>(), "same_parent_and").map_err(|f| Fail { site: f.site, msg: format!("{what}: {}", f.msg) })?;
    ensure_eq!(wa.contains(wb), subset(cb, ca), "same_parent_contains", "a.contains(b) for {what}");
    ensure_eq!(wb.contains(wa), subset(ca, cb), "same_parent_contains", "b.contains(a) for {what}");
    ensure!(wa.contains(wa), "same_parent_contains_self", "a window does not contain itself: {what}");
    check_symbols(&sy, p, pc, "same_parent_unchanged")?;
    Ok(Pass::new(len >= 2 && i != j).class_if(i != j && i < j + len && j < i + len, "overlapping_operands"))
}

/// DNA base -> IUPAC singleton, at sequence level too
fn check_from_dna(case: &SeqSpec) -> PResult {
    let sd = Syms::<DnaC>::new()?;
    let si = Syms::<IupacC>::new()?;
    let b = build(&sd, case)?;
    let conv: Seq<IupacC> = Seq::from(b.slice());
    let exp: Vec<u8> = case.codes.iter().map(|&c| model::set_of_letter(model::dna_char(c))).collect();
    check_content(&si, &conv, &exp, "from_dna")?;
    for c in &exp {
        ensure!(c.count_ones() == 1, "from_dna_singleton", "not a singleton set");
    }
    Ok(Pass::new(case.len() >= 2 && case.bit_offset(2) != 0))
}

/// the static array type's own `contains` for a ladder of array lengths (a const parameter cannot be
/// generated, so the ladder is fixed): itself, a subset, a near miss at each end, wrong lengths
fn array_ladder(seed: &u8) -> PResult {
    let sy = Syms::<IupacC>::new()?;
    let mut straddling = false;
    macro_rules! rung {
        ($n:literal, $w:literal) => {{
            let n: usize = $n;
            let pat: Vec<u8> = (0..n).map(|i| (((i * 7 + *seed as usize * 3 + i / 5) % 15) + 1) as u8).collect();
            let mut words = [0usize; $w];
            for (i, w) in crate::model::pack_words(&pat, 4).iter().enumerate() {
                words[i] = *w as usize;
            }
            let arr: SeqArray<IupacC, $n, $w> = SeqArray { _p: core::marker::PhantomData, ba: bitvec::array::BitArray::new(words) };
            let sub: Vec<u8> = pat.iter().enumerate().map(|(i, x)| x & (((i * 11 + *seed as usize) % 16) as u8)).collect();
            let mut args: Vec<(Vec<u8>, &str)> = vec![(pat.clone(), "the pattern itself"), (sub.clone(), "a subset"), (vec![0; n], "all gaps")];
            for at in [0usize, n / 2, n - 1] {
                let mut miss = sub.clone();
                miss[at] = !pat[at] & 15;
                if miss[at] != 0 {
                    args.push((miss, "a near miss"));
                }
            }
            args.push((pat[..n - 1].to_vec(), "one symbol shorter"));
            let mut longer = pat.clone();
            longer.push(pat[0]);
            args.push((longer, "one symbol longer"));
            for (arg, what) in &args {
                let exp = subset(arg, &pat);
                for pre in [0usize, 3] {
                    let b = build(&sy, &SeqSpec { codes: arg.clone(), repr: Repr::Slice { pre: vec![15; pre], post: vec![1] } })?;
                    let got = no_panic(&format!("contains_array_panic/{n}"), &format!("SeqArray<Iupac, {n}, {}>::contains({what})", $w), || arr.contains(b.slice()))?;
                    ensure_eq!(got, exp, format!("contains_array_ladder/{n}"), "SeqArray<Iupac, {n}, {}>::contains({what}, {pre} symbols into its parent)", $w);
                }
            }
            straddling |= n > 16;
        }};
    }
    rung!(1, 1);
    rung!(16, 1);
    rung!(17, 2);
    rung!(63, 4);
    rung!(64, 4);
    rung!(65, 5);
    rung!(100, 7);
    rung!(127, 8);
    rung!(128, 8);
    rung!(129, 9);
    rung!(255, 16);
    rung!(256, 16);
    rung!(257, 17);
    rung!(1000, 63);
    rung!(4097, 257);
    // spare backing words
    rung!(5, 2);
    rung!(64, 6);
    Ok(Pass::new(straddling))
}

fn strat(max: usize) -> BoxedStrategy<Case> {
    let m = ID.model();
    gen::seq_spec(ID, max)
        .prop_flat_map(move |a| {
            let n = a.len();
            let ca = a.codes.clone();
            // b: independent, or a per-position subset of a (so that `contains` is often true), or a superset
            let b_codes = prop_oneof![
                3 => gen::codes_n(m, n),
                2 => vec(0..16u8, n).prop_map({ let ca = ca.clone(); move |mask| ca.iter().zip(mask).map(|(x, k)| x & k).collect::<Vec<u8>>() }),
                1 => vec(0..16u8, n).prop_map({ let ca = ca.clone(); move |mask| ca.iter().zip(mask).map(|(x, k)| x | k).collect::<Vec<u8>>() }),
                1 => Just(ca.clone()),
                // a subset of a with a stretch of gaps (the empty set) and at most one position that is
                // not a subset: alignment rows with gap columns
                3 => (vec(0..16u8, n), any::<u16>(), 14..70usize, any::<u16>(), 0..16u8).prop_map({ let ca = ca.clone(); move |(mask, start, run, at, extra)| {
                    let mut b: Vec<u8> = ca.iter().zip(mask).map(|(x, k)| x & k).collect();
                    if n > 0 {
                        let s = scale16(start, n - 1);
                        for x in b.iter_mut().skip(s).take(run) {
                            *x = 0;
                        }
                        let p = scale16(at, n - 1);
                        b[p] |= extra;
                    }
                    b
                } }),
            ];
            let c = prop_oneof![
                3 => gen::seq_spec(ID, 40),
                1 => gen::repr(m).prop_map({ let ca = ca.clone(); move |r| SeqSpec { codes: ca[..ca.len().saturating_sub(1)].to_vec(), repr: r } }),
                1 => (gen::repr(m), gen::code(m)).prop_map({ let ca = ca.clone(); move |(r, x)| { let mut v = ca.clone(); v.push(x); SeqSpec { codes: v, repr: r } } }),
            ];
            (Just(a), b_codes, gen::repr(m), c)
        })
        .prop_map(|(a, b_codes, rb, c)| Case { a, b: SeqSpec { codes: b_codes, repr: rb }, c })
        .boxed()
}

pub fn run(ctx: &mut Ctx) {
    let max = ctx.pick(80, 400);
    let cases = ctx.cases(6000, 20);
    ctx.forall("pairs", cases, strat(max), check);
    {
        let m = ID.model();
        let lens = gen::long_lens_bits(4, ctx.thorough(), ctx.seed);
        ctx.forall_lens(
            "pairs_long",
            &lens,
            |_n| {
                gen::seq_spec_n(ID, _n)
                    .prop_flat_map(move |a| {
                        let n = a.len();
                        let ca = a.codes.clone();
                        let ca2 = a.codes.clone();
                        let b = prop_oneof![
                            1 => gen::codes_n(m, n),
                            2 => vec(0..16u8, n).prop_map(move |mask| ca.iter().zip(mask).map(|(x, k)| x & k).collect::<Vec<u8>>()),
                            // near miss: a subset everywhere except at one position close to the end (or anywhere)
                            3 => (vec(0..16u8, n), prop_oneof![2 => 0..40usize, 1 => 0..n.max(1)], 1..16u8).prop_map(move |(mask, back, extra)| {
                                let mut b: Vec<u8> = ca2.iter().zip(mask).map(|(x, k)| x & k).collect();
                                if n > 0 {
                                    let at = n - 1 - back.min(n - 1);
                                    b[at] = ca2[at] ^ 15 | (extra & !ca2[at] & 15);
                                    if b[at] & !ca2[at] == 0 {
                                        b[at] = ca2[at] & 7;
                                    }
                                }
                                b
                            }),
                        ];
                        (Just(a), b, gen::repr(m), gen::seq_spec(ID, 40))
                    })
                    .prop_map(|(a, b, rb, c)| Case { a, b: SeqSpec { codes: b, repr: rb }, c })
            },
            check,
        );
    }
    {
        // very long patterns whose only non-subset position lies in the last few symbols: block-wise
        // implementations that drop an incomplete trailing block answer `true`
        let m = ID.model();
        let mut lens = vec![65537usize, 70001];
        if ctx.thorough() {
            lens.extend([131073, 65536 * 3 + 5, 65535, 65536]);
        }
        ctx.forall_lens(
            "contains_tail_near_miss",
            &lens,
            |n| {
                (gen::codes_n(m, n), vec(0..16u8, n), 0..40usize, 1..16u8, gen::repr(m), gen::repr(m)).prop_map(move |(ca, mask, back, extra, ra, rb)| {
                    let mut b: Vec<u8> = ca.iter().zip(mask).map(|(x, k)| x & k).collect();
                    let at = n - 1 - back.min(n - 1);
                    // make position `at` of b not a subset of a (when a is not the full set)
                    let outside = !ca[at] & 15;
                    if outside != 0 {
                        b[at] = ca[at] | (outside & extra.max(1)) | (outside & outside.wrapping_neg());
                    }
                    Case { a: SeqSpec { codes: ca, repr: ra }, b: SeqSpec { codes: b, repr: rb }, c: SeqSpec::plain(vec![]) }
                })
            },
            check,
        );
    }
    let cases = ctx.cases(2500, 10);
    let st = (gen::seq_spec(ID, 100), any::<u16>(), any::<u16>(), any::<u16>()).prop_map(|(parent, i, j, len)| SameParent { parent, i, j, len });
    ctx.forall("same_parent", cases, st, same_parent);
    let cases = ctx.cases(1500, 10);
    ctx.each("static_array_ladder", vec![0u8, 1, 2, 7], array_ladder);
    ctx.forall("from_dna", cases, gen::seq_spec(CodecId::Dna, 150), check_from_dna);
    // exhaustive: all 256 symbol pairs x all 256 pairs of start offsets (length-1 windows)
    let m = ID.model();
    let filler: Vec<u8> = (0..16).map(|i| m.codes()[(i * 7 + 3) % 16]).collect();
    let mut cells = vec![];
    for x in 0..16u8 {
        for y in 0..16u8 {
            for o1 in 0..16usize {
                for o2 in 0..16usize {
                    let a = SeqSpec { codes: vec![x], repr: Repr::Slice { pre: filler[..o1].to_vec(), post: vec![15, 0] } };
                    let b = SeqSpec { codes: vec![y], repr: Repr::Slice { pre: filler[..o2].to_vec(), post: vec![0, 15] } };
                    let c = SeqSpec::plain(vec![]);
                    cells.push(Case { a, b, c });
                }
            }
        }
    }
    ctx.each("symbol_pairs_x_offsets", cells, check);
    // exhaustive: every symbol pair embedded at every position of a 17-symbol pair of windows
    let mut cells = vec![];
    for x in 0..16u8 {
        for y in 0..16u8 {
            for p in 0..17usize {
                let mut ca: Vec<u8> = (0..17).map(|i| m.codes()[(i * 5 + 1) % 16]).collect();
                let mut cb: Vec<u8> = (0..17).map(|i| m.codes()[(i * 11 + 6) % 16]).collect();
                ca[p] = x;
                cb[p] = y;
                let a = SeqSpec { codes: ca.clone(), repr: Repr::Slice { pre: filler[..(p % 5) + 1].to_vec(), post: vec![15] } };
                let b = SeqSpec { codes: cb, repr: Repr::Slice { pre: filler[..(p % 7) + 9].to_vec(), post: vec![] } };
                let c = SeqSpec::plain(ca[..16].to_vec());
                cells.push(Case { a, b, c });
            }
        }
    }
    ctx.each("symbol_pairs_embedded", cells, check);
    ctx.require_class("contains_true");
    ctx.require_class("contains_false");
    ctx.require_class("length_mismatch");
    ctx.require_class("independent_offsets");
    ctx.require_class("static_operand");
    ctx.require_class("overlapping_operands");
}
