//! C08 — k-mer iteration and construction reproduce the sequence's windows exactly.

use crate::codecs::*;
use crate::gen;
use crate::kmers::*;
use crate::model::{self, CodecId, ALL_CODECS};
use crate::obs::*;
use bio_seq::prelude::*;
use proptest::prelude::*;
use proptest::sample::select;
use serde::{Deserialize, Serialize};

#[derive(Clone, Debug, Serialize, Deserialize)]
pub struct Case {
    pub codec: CodecId,
    pub st: St,
    pub k: usize,
    /// sequence to build the k-mer from / to iterate over
    pub s: SeqSpec,
    /// text for `from_str` (arbitrary bytes that form a valid str)
    pub text: String,
}

fn expect_info(i: &KInfo, codes: &[u8], id: CodecId, k: usize, site: &str, what: &str) -> R<()> {
    let m = id.model();
    ensure_eq!(i.display, m.text(codes), format!("{site}/display"), "{what}: display");
    ensure_eq!(i.len, k, format!("{site}/len"), "{what}: len()");
    ensure!(!i.is_empty, format!("{site}/is_empty"), "{what}: is_empty() is true");
    Ok(())
}

fn check(case: &Case) -> PResult {
    let (id, st, k) = (case.codec, case.st, case.k);
    let m = id.model();
    let tag = format!("{}/{}", id.name(), st.name());
    let codes = &case.s.codes;
    let n = codes.len();
    let what = format!("Kmer<{},{k},{}> from a {}-symbol {} sequence", id.name(), st.name(), n, case.s.repr.kind());

    // construction from a slice
    let r = no_panic(&format!("try_from_slice_panic/{tag}"), &what, || kcall(id, k, st, &KReq::FromSpec(case.s.clone())))?;
    let built = match r {
        Some(Ok(KRes::Built(b))) => b,
        Some(Err(f)) => return Err(f),
        other => fail!("harness/dispatch", "{what}: {other:?}"),
    };
    match (&built, n == k) {
        (Ok(i), true) => expect_info(i, codes, id, k, &format!("try_from_slice/{tag}"), &what)?,
        (Err(KErr::MismatchedLength(..)), false) => {}
        (Ok(i), false) => fail!(format!("try_from_slice_wrong_len_accepted/{tag}"), "{what} succeeded although the length is not K: got {}", i.display),
        (Err(e), true) => fail!(format!("try_from_slice_rejected/{tag}"), "{what} failed with {e:?} although the length is K"),
        (Err(e), false) => fail!(format!("try_from_slice_wrong_error/{tag}"), "{what}: expected MismatchedLength, got {e:?}"),
    }

    if n == k {
        let r = no_panic(&format!("unsafe_from_seqslice_panic/{tag}"), &what, || kcall(id, k, st, &KReq::UnsafeFrom(case.s.clone())))?;
        let i = want_info(r, "unsafe_from_seqslice")?;
        expect_info(&i, codes, id, k, &format!("unsafe_from_seqslice/{tag}"), &format!("Kmer::unsafe_from_seqslice for {what}"))?;
        if let Ok(b) = &built {
            ensure!(i.bs == b.bs && i.hash == b.hash, format!("unsafe_from_seqslice_vs_try_from/{tag}"), "unsafe_from_seqslice and try_from disagree for {what}");
        }
    }
    // construction from text
    let bytes = case.text.as_bytes();
    let parsed = m.parse(bytes);
    let r = no_panic(&format!("from_str_panic/{tag}"), &format!("Kmer::from_str({:?})", case.text), || kcall(id, k, st, &KReq::FromStr(case.text.clone())))?;
    let fs = match r {
        Some(Ok(KRes::Built(b))) => b,
        Some(Err(f)) => return Err(f),
        other => fail!("harness/dispatch", "from_str: {other:?}"),
    };
    let whats = format!("Kmer::<{},{k},{}>::from_str({:?})", id.name(), st.name(), case.text);
    match (&fs, &parsed, bytes.len() == k) {
        (Ok(i), Ok(c), true) => expect_info(i, c, id, k, &format!("from_str/{tag}"), &whats)?,
        (Ok(i), _, _) => fail!(format!("from_str_accepted/{tag}"), "{whats} succeeded (as {}) although the text is invalid or not K long", i.display),
        (Err(e), Ok(_), true) => fail!(format!("from_str_rejected/{tag}"), "{whats} failed with {e:?} although the text is valid and K long"),
        (Err(KErr::UnrecognisedBase(b)), Err(first), true) => ensure_eq!(b, first, format!("from_str_bad_byte/{tag}"), "{whats}: reported byte"),
        (Err(_), _, _) => {}
    }

    let mut iter_nt = false;
    if st == St::Usize {
        // owned-sequence constructor
        let r = no_panic(&format!("try_from_seq_panic/{tag}"), &what, || kcall_usize(id, k, &UReq::TryFromSeq(case.s.clone())))?;
        match r {
            Some(Ok(URes::Built(b))) => match (&b, n == k) {
                (Ok(i), true) => expect_info(i, codes, id, k, &format!("try_from_seq/{tag}"), &what)?,
                (Err(KErr::MismatchedLength(..)), false) => {}
                (Ok(i), false) => fail!(format!("try_from_seq_wrong_len_accepted/{tag}"), "Kmer::try_from(Seq) of length {n} succeeded for K={k}: {}", i.display),
                (Err(e), _) => fail!(format!("try_from_seq_error/{tag}"), "Kmer::try_from(Seq) of length {n}, K={k}: {e:?}"),
            },
            Some(Err(f)) => return Err(f),
            other => fail!("harness/dispatch", "try_from_seq: {other:?}"),
        }
        // views of a successfully built k-mer
        if n == k {
            let r = no_panic(&format!("views_panic/{tag}"), "deref / to_usize / Seq::from(kmer)", || kcall_usize(id, k, &UReq::Views(codes.clone())))?;
            match r {
                Some(Ok(URes::Views(v))) => {
                    ensure_eq!(v.deref_display, m.text(codes), format!("deref/{tag}"), "display of the dereferenced slice");
                    ensure_eq!(v.deref_len, k, format!("deref/{tag}"), "length of the dereferenced slice");
                    ensure_eq!(v.deref_codes, codes.clone(), format!("deref/{tag}"), "symbols of the dereferenced slice");
                    ensure!(v.asref_eq, format!("as_ref/{tag}"), "as_ref() != deref() or kmer != its own slice");
                    ensure_eq!(v.to_seq_codes, codes.clone(), format!("to_seq/{tag}"), "Seq::from(kmer) symbols");
                    ensure_eq!(v.to_seq_display, m.text(codes), format!("to_seq/{tag}"), "Seq::from(kmer) display");
                    ensure!(v.eq_own_text, format!("eq_own_text/{tag}"), "kmer != its own displayed text");
                }
                Some(Err(f)) => return Err(f),
                other => fail!("harness/dispatch", "views: {other:?}"),
            }
        }
        // iteration
        let r = no_panic(&format!("kmers_iter_panic/{tag}"), &format!("kmers::<{k}>() over {n} symbols"), || kcall_usize(id, k, &UReq::Iter(case.s.clone())))?;
        match r {
            Some(Ok(URes::Iter(it))) => {
                let expected = if n >= k { n - k + 1 } else { 0 };
                ensure_eq!(it.items.len(), expected, format!("kmers_count/{tag}"), "number of {k}-mers of a {n}-symbol sequence");
                ensure!(it.terminated, format!("kmers_terminates/{tag}"), "kmers::<{k}>() yields more items after None");
                if let Some(f) = it.laws {
                    return Err(Fail { site: format!("{}/{tag}", f.site), msg: format!("kmers::<{k}>() over {n} symbols: {}", f.msg) });
                }
                ensure_eq!(it.nwindows, expected, format!("windows_count/{tag}"), "number of windows({k})");
                for (i, item) in it.items.iter().enumerate() {
                    let w = &codes[i..i + k];
                    expect_info(item, w, id, k, &format!("kmers_item/{tag}"), &format!("{i}-th {k}-mer of a {n}-symbol sequence"))?;
                    ensure!(it.eq_windows[i], format!("kmers_vs_windows/{tag}"), "{i}-th k-mer != {i}-th window");
                }
                iter_nt = n > k && case.s.bit_offset(m.bits) != 0;
            }
            Some(Err(f)) => return Err(f),
            other => fail!("harness/dispatch", "iter: {other:?}"),
        }
    }
    let nt = iter_nt || k * m.bits + m.bits >= st.bits() || n < k;
    Ok(Pass::new(nt)
        .class_if(n < k, "shorter_than_k")
        .class_if(n + 2 <= k, "much_shorter_than_k")
        .class_if(n == k, "exact")
        .class_if(n > k, "longer_than_k")
        .class_if(k * m.bits == st.bits(), "full_width")
        .class_if(st == St::U128 && k * m.bits > 64, "two_words"))
}

fn strat(id: CodecId, st: St, ks: Vec<usize>) -> BoxedStrategy<Case> {
    let m = id.model();
    select(ks)
        .prop_flat_map(move |k| {
            let lens = prop_oneof![
                3 => Just(k),
                1 => Just(k.saturating_sub(1)),
                1 => Just(k + 1),
                1 => Just(0usize),
                1 => 0..=k,
                3 => k..=k + 70,
            ];
            let s = (lens, gen::repr(m)).prop_flat_map(move |(n, repr)| gen::codes_n(m, n).prop_map(move |codes| SeqSpec { codes, repr: repr.clone() }));
            // text: valid body of length K-1, K or K+1 with an optional offending character
            let text = (prop_oneof![4 => Just(k), 1 => Just(k.saturating_sub(1)), 1 => Just(k + 1)], any::<u16>(), proptest::option::weighted(0.35, crate::props::c01::bad_char(m)))
                .prop_flat_map(move |(n, pos, bad)| {
                    proptest::collection::vec(select(m.accepted_bytes()), n).prop_map(move |mut b| {
                        if let Some(x) = &bad {
                            // replace (keeps the byte length when the offender is one byte) or insert
                            let at = scale16(pos, b.len().saturating_sub(1));
                            if !b.is_empty() && x.len() == 1 {
                                b[at] = x[0];
                            } else {
                                for (i, y) in x.iter().enumerate() {
                                    b.insert((at + i).min(b.len()), *y);
                                }
                            }
                        }
                        String::from_utf8_lossy(&b).to_string()
                    })
                });
            (Just(k), s, text)
        })
        .prop_map(move |(k, s, text)| Case { codec: id, st, k, s, text })
        .boxed()
}

fn literals(_: &u8) -> PResult {
    // kmer! literals compiled into the harness against the runtime parser
    macro_rules! lit {
        ($s:literal) => {{
            let k = kmer!($s);
            let p = Kmer::<DnaC, { $s.len() }>::from_str($s).map_err(|e| Fail { site: "literal/parse".into(), msg: format!("{e:?}") })?;
            ensure!(k == p && k.to_string() == $s && k.bs == p.bs, "literal/usize", "kmer!({}) != parsed", $s);
        }};
        ($s:literal, $t:ty) => {{
            let k = kmer!($s, $t);
            let p = Kmer::<DnaC, { $s.len() }, $t>::from_str($s).map_err(|e| Fail { site: "literal/parse".into(), msg: format!("{e:?}") })?;
            ensure!(k == p && k.to_string() == $s && k.bs == p.bs, concat!("literal/", stringify!($t)), "kmer!({}, {}) != parsed", $s, stringify!($t));
        }};
    }
    use std::str::FromStr;
    lit!("G");
    lit!("ACGTA");
    lit!("TTGACCATGCATGCAAGTCAGTCAGTGACCA");
    lit!("CTGACCATGCATGCAAGTCAGTCAGTGACCAT");
    lit!("T", u64);
    lit!("CTGACCATGCATGCAAGTCAGTCAGTGACCAG", u64);
    lit!("C", u128);
    lit!("CTGACCATGCATGCAAGTCAGTCAGTGACCAGT", u128);
    lit!("CTGACCATGCATGCAAGTCAGTCAGTGACCAGTTGACCATGCATGCAAGTCAGTCAGTGACCAT", u128);
    lit!("TTTTTTTTTTTTTTTTTTTTTTTTTTTTTTTTTTTTTTTTTTTTTTTTTTTTTTTTTTTTTTTT", u128);
    Ok(Pass::new(true))
}

#[derive(Clone, Debug, Serialize, Deserialize)]
pub struct RawIter {
    pub codec: CodecId,
    pub k: usize,
    pub words: Vec<u64>,
    pub count: u16,
}

/// k-mers of a sequence rebuilt from an arbitrary word image (alternative bit patterns included): the
/// i-th k-mer holds exactly the bits of symbols i..i+K of the image — whether the iterator is stepped
/// with next() or consumed through fold / for_each / last — and equals the i-th window.
fn raw_iter(c: &RawIter) -> PResult {
    let bits = c.codec.bits();
    let cap = c.words.len() * 64 / bits;
    let count = scale16(c.count, cap);
    let tag = format!("{}/{}", c.codec.name(), c.k);
    let r = no_panic(&format!("raw_kmers_panic/{tag}"), &format!("kmers::<{}>() over a {count}-symbol sequence rebuilt from raw words", c.k), || kcall_usize(c.codec, c.k, &UReq::IterRaw(c.words.clone(), count)))?;
    let (by_next, by_fold, by_for_each, eq, last) = match r {
        Some(Ok(URes::IterRaw(a, b, d, e, l))) => (a, b, d, e, l),
        Some(Err(f)) => return Err(f),
        other => fail!("harness/kmer_dispatch", "unexpected dispatch result {other:?}"),
    };
    let w = c.k * bits;
    let exp: Vec<usize> = if count >= c.k {
        (0..=count - c.k).map(|i| (0..w).fold(0usize, |acc, b| acc | ((model::bit_of(&c.words, i * bits + b) as usize) << b))).collect()
    } else {
        vec![]
    };
    ensure_eq!(by_next, exp, format!("raw_kmers_next/{tag}"), "packed integers of kmers::<{}>() stepped with next() over a raw image of {count} symbols", c.k);
    ensure_eq!(by_fold, exp, format!("raw_kmers_fold/{tag}"), "packed integers of kmers::<{}>() consumed by fold over a raw image of {count} symbols", c.k);
    ensure_eq!(by_for_each, exp, format!("raw_kmers_for_each/{tag}"), "packed integers of kmers::<{}>() consumed by for_each over a raw image of {count} symbols", c.k);
    ensure_eq!(last, exp.last().copied(), format!("raw_kmers_last/{tag}"), "last() of kmers::<{}>() over a raw image of {count} symbols", c.k);
    ensure!(eq.iter().all(|x| *x), format!("raw_kmers_eq_windows/{tag}"), "a k-mer of a raw image differs from the window at the same position");
    Ok(Pass::new(exp.len() >= 2))
}

pub fn run(ctx: &mut Ctx) {
    let types = ktypes();
    // raw images: codecs in which every bit pattern of the width is a symbol (alternative patterns)
    for id in ALL_CODECS {
        if !id.model().all_patterns_valid() {
            continue;
        }
        let ks: Vec<usize> = types.iter().filter(|t| t.0 == id && t.1 == St::Usize).map(|t| t.2).collect();
        if ks.is_empty() {
            continue;
        }
        let cases = ctx.cases(300, 10);
        let st = (proptest::sample::select(ks), proptest::collection::vec(prop_oneof![4 => any::<u64>(), 1 => Just(0u64), 1 => Just(u64::MAX)], 0..=3), any::<u16>()).prop_map(move |(k, words, count)| RawIter { codec: id, k, words, count });
        ctx.forall(&format!("raw_images/{}", id.name()), cases, st, raw_iter);
    }
    for id in ALL_CODECS {
        for st in ALL_ST {
            let ks: Vec<usize> = types.iter().filter(|t| t.0 == id && t.1 == st).map(|t| t.2).collect();
            if ks.is_empty() {
                continue;
            }
            let per = if st == St::Usize { 80 } else { 50 };
            let cases = ctx.cases((ks.len() * per) as u32, 10);
            ctx.forall(&format!("kmers/{}/{}", id.name(), st.name()), cases, strat(id, st, ks), check);
        }
    }
    ctx.each("kmer_literals", vec![0u8], literals);
    // bounded-exhaustive: every type, lengths 0..=K+2 at offset 1
    let mut cells = vec![];
    for (id, st, k) in &types {
        let m = id.model();
        for n in 0..=k + 2 {
            if *k > 12 && ![0, 1, k - 2, k - 1, *k, k + 1, k + 2].contains(&n) {
                continue;
            }
            let codes: Vec<u8> = (0..n).map(|i| m.codes()[(i * 3 + n + k) % m.nsyms()]).collect();
            let s = SeqSpec { codes: codes.clone(), repr: Repr::Slice { pre: vec![m.codes()[m.nsyms() - 1]], post: vec![m.codes()[0]] } };
            cells.push(Case { codec: *id, st: *st, k: *k, s, text: m.text(&codes) });
        }
    }
    ctx.each("all_types_lengths", cells, check);
    ctx.require_class("much_shorter_than_k");
    ctx.require_class("exact");
    ctx.require_class("longer_than_k");
    ctx.require_class("full_width");
    ctx.require_class("two_words");
}
