//! one module per property

use crate::obs::Ctx;

pub mod c01;
pub mod c02;
pub mod c03;
pub mod c04;
pub mod c05;
pub mod c06;
pub mod c07;
pub mod c08;
pub mod c09;
pub mod c10;
pub mod c11;
pub mod c12;
pub mod c13;
pub mod c14;
pub mod c15;
pub mod c16;
pub mod c18;
pub mod c19;
pub mod c20;

pub fn run(ctx: &mut Ctx) -> bool {
    match ctx.prop.as_str() {
        "C01" => c01::run(ctx),
        "C02" => c02::run(ctx),
        "C03" => c03::run(ctx),
        "C04" => c04::run(ctx),
        "C05" => c05::run(ctx),
        "C06" => c06::run(ctx),
        "C07" => c07::run(ctx),
        "C08" => c08::run(ctx),
        "C09" => c09::run(ctx),
        "C10" => c10::run(ctx),
        "C11" => c11::run(ctx),
        "C12" => c12::run(ctx),
        "C13" => c13::run(ctx),
        "C14" => c14::run(ctx),
        "C15" => c15::run(ctx),
        "C16" => c16::run(ctx),
        "C18" => c18::run(ctx),
        "C19" => c19::run(ctx),
        "C20" => c20::run(ctx),
        _ => return false,
    }
    true
}
