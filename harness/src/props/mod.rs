//! one module per property

use crate::obs::Ctx;

pub mod c01;
pub mod c05;

pub fn run(ctx: &mut Ctx) -> bool {
    match ctx.prop.as_str() {
        "C01" => c01::run(ctx),
        "C05" => c05::run(ctx),
        _ => return false,
    }
    true
}
