//! C19 — cross-codec conversion and trimming preserve the underlying bases.

use crate::codecs::*;
use crate::gen;
use crate::model::{self, CodecId, ALL_CODECS};
use crate::obs::*;
use crate::oracle::*;
use crate::props::c01;
use bio_seq::prelude::*;
use proptest::collection::vec;
use proptest::prelude::*;
use serde::{Deserialize, Serialize};

fn conv(s: &SeqSpec) -> PResult {
    let sd = Syms::<DnaC>::new()?;
    let si = Syms::<IupacC>::new()?;
    let st = Syms::<TextC>::new()?;
    let b = build(&sd, s)?;
    let sl = b.slice();
    let letters: Vec<u8> = s.codes.iter().map(|&c| model::dna_char(c)).collect();
    let txt = String::from_utf8(letters.clone()).unwrap();
    let i: Seq<IupacC> = no_panic("to_iupac_panic", "Seq::<Iupac>::from(&dna)", || Seq::from(sl))?;
    let exp_i: Vec<u8> = letters.iter().map(|&l| model::set_of_letter(l)).collect();
    check_content(&si, &i, &exp_i, "to_iupac")?;
    ensure_eq!(i.to_string(), txt, "to_iupac/letters", "Iupac conversion displays");
    let t: Seq<TextC> = no_panic("to_text_panic", "Seq::<text::Dna>::from(&dna)", || Seq::from(sl))?;
    check_content(&st, &t, &letters, "to_text")?;
    ensure_eq!(t.to_string(), txt, "to_text/letters", "text conversion displays");
    // the source is untouched and displays the same letters
    check_symbols(&sd, sl, &s.codes, "source")?;
    ensure_eq!(sl.to_string(), txt, "source/letters", "source displays");
    // and agrees with parsing the text directly in the target codec
    ensure!(Seq::<IupacC>::try_from(txt.as_str()).ok().as_ref() == Some(&i), "to_iupac/parse", "converted != parsed {txt}");
    ensure!(Seq::<TextC>::try_from(txt.as_str()).ok().as_ref() == Some(&t), "to_text/parse", "converted != parsed {txt}");
    // the static array type converts the same way (by reference and by value)
    macro_rules! arr_conv {
        ($n:literal, $w:literal) => {
            if s.len() == $n {
                let mut words = [0usize; $w];
                for (i, w) in model::pack_words(&s.codes, 2).iter().enumerate() {
                    words[i] = *w as usize;
                }
                let arr: SeqArray<DnaC, $n, $w> = SeqArray { _p: core::marker::PhantomData, ba: bitvec::array::BitArray::new(words) };
                let a1: Seq<IupacC> = Seq::from(&arr);
                check_symbols(&si, &a1, &exp_i, "array_ref_to_iupac")?;
                let a2: Seq<TextC> = Seq::from(&arr);
                check_symbols(&st, &a2, &letters, "array_ref_to_text")?;
                let a3: Seq<IupacC> = Seq::from(arr);
                check_symbols(&si, &a3, &exp_i, "array_to_iupac")?;
            }
        };
    }
    arr_conv!(1, 1);
    arr_conv!(5, 1);
    arr_conv!(31, 1);
    arr_conv!(32, 1);
    arr_conv!(33, 2);
    arr_conv!(63, 2);
    arr_conv!(64, 2);
    arr_conv!(65, 3);
    arr_conv!(95, 3);
    arr_conv!(96, 3);
    arr_conv!(97, 4);
    arr_conv!(127, 4);
    arr_conv!(128, 4);
    arr_conv!(129, 5);
    // N and W are independent parameters of the public type: arrays with spare (zero) backing words
    arr_conv!(0, 1);
    arr_conv!(1, 3);
    arr_conv!(5, 2);
    arr_conv!(32, 2);
    arr_conv!(33, 3);
    arr_conv!(64, 4);
    // text bases back to DNA, symbol by symbol
    for (k, x) in t.iter().enumerate() {
        match DnaC::try_from(x) {
            Ok(d) => ensure_eq!(d.to_bits(), s.codes[k], "text_to_dna", "text base {k} back to DNA"),
            Err(e) => fail!("text_to_dna", "text base {:?} was refused: {e:?}", x.to_char()),
        }
    }
    Ok(Pass::new(s.len() >= 2 && (s.bit_offset(2) != 0 || s.len() > 32)).class_if(b.is_static(), "static").class_if(s.bit_offset(2) != 0, "offset"))
}

fn text_to_dna(b: &u8) -> PResult {
    let b = *b;
    let t = TextC::try_from_bits(b);
    ensure!(t.is_some(), "text_bits", "text::Dna::try_from_bits({b:#04x}) refused");
    let t = t.unwrap();
    let r = no_panic("text_to_dna_panic", "dna::Dna::try_from(text::Dna)", || DnaC::try_from(t))?;
    match b {
        b'A' | b'C' | b'G' | b'T' => match r {
            Ok(d) => ensure_eq!(d.to_char(), b as char, "text_to_dna_base", "text {} to DNA", b as char),
            Err(e) => fail!("text_to_dna_refused", "text base {} refused: {e:?}", b as char),
        },
        _ => match r {
            Err(ParseBioError::UnrecognisedBase(x)) => ensure_eq!(x, b, "text_to_dna_err_byte", "reported byte"),
            Err(e) => fail!("text_to_dna_wrong_error", "byte {b:#04x}: {e:?}"),
            Ok(d) => fail!("text_to_dna_accepted", "text byte {b:#04x} converted to DNA {d:?}"),
        },
    }
    Ok(Pass::new(true))
}

#[derive(Clone, Debug, Serialize, Deserialize)]
pub struct Trim {
    pub lead: Vec<Vec<u8>>,
    pub body: c01::Case,
    pub trail: Vec<Vec<u8>>,
}

impl Trim {
    fn bytes(&self) -> Vec<u8> {
        let mut v: Vec<u8> = self.lead.iter().flatten().copied().collect();
        v.extend(self.body.bytes());
        v.extend(self.trail.iter().flatten().copied());
        v
    }
}

fn trim<C: Cm>(case: &Trim) -> PResult {
    let sy = Syms::<C>::new()?;
    let m = sy.m;
    let n = C::ID.name();
    let bytes = case.bytes();
    let shown = String::from_utf8_lossy(&bytes).to_string();
    let got = no_panic(&format!("trim_panic/{n}"), &format!("trim_u8({shown:?})"), || Seq::<C>::trim_u8(&bytes))?;
    let first = bytes.iter().position(|b| m.parse_byte(*b).is_some());
    let last = bytes.iter().rposition(|b| m.parse_byte(*b).is_some());
    let (span, exp): (&[u8], Result<Vec<u8>, u8>) = match (first, last) {
        (Some(i), Some(j)) => (&bytes[i..=j], m.parse(&bytes[i..=j])),
        _ => (&bytes[0..0], Ok(vec![])),
    };
    match (&exp, &got) {
        (Ok(codes), Ok(s)) => {
            check_content(&sy, s, codes, &format!("trim_ok/{n}")).map_err(|f| Fail { site: f.site, msg: format!("trim_u8({shown:?}): {}", f.msg) })?;
        }
        (Err(b), Err(ParseBioError::UnrecognisedBase(x))) => ensure_eq!(x, b, format!("trim_err_byte/{n}"), "trim_u8({shown:?}) reported byte"),
        (Ok(codes), Err(e)) => fail!(format!("trim_rejected/{n}"), "trim_u8({shown:?}) failed with {e:?}; the span parses to {}", sy.text(codes)),
        (Err(b), Ok(s)) => fail!(format!("trim_accepted/{n}"), "trim_u8({shown:?}) returned {s} although the span contains the bad byte {b:#04x}"),
        (Err(_), Err(e)) => fail!(format!("trim_wrong_error/{n}"), "trim_u8({shown:?}) returned {e:?}"),
    }
    // equals the library's own strict parsing of the span
    let strict = Seq::<C>::try_from(span);
    ensure!(strict == got, format!("trim_vs_strict/{n}"), "trim_u8({shown:?}) = {got:?} but Seq::try_from(span) = {strict:?}");
    let interior_bad = exp.is_err();
    let nt = (!case.lead.is_empty() && !case.trail.is_empty() && span.len() >= 2) || interior_bad;
    Ok(Pass::new(nt)
        .class_if(interior_bad, "interior_bad")
        .class_if(first.is_none() && !bytes.is_empty(), "all_bad")
        .class_if(bytes.is_empty(), "empty_input")
        .class_if(!case.lead.is_empty() && !case.trail.is_empty(), "both_paddings"))
}

pub fn dispatch_trim(case: &Trim) -> PResult {
    with_codec!(case.body.codec, C, trim::<C>(case))
}

fn trim_strat(id: CodecId, max: usize) -> BoxedStrategy<Trim> {
    let m = id.model();
    let acc = m.accepted_bytes();
    let body = prop_oneof![
        // empty body, all valid, valid with interior bad bytes
        1 => Just(c01::Case { codec: id, body: vec![], bad: vec![] }),
        4 => c01::body(m, max).prop_map(move |b| c01::Case { codec: id, body: b, bad: vec![] }),
        3 => (c01::body(m, max), vec((any::<u16>(), c01::bad_char(m)), 1..=2)).prop_map(move |(b, bad)| c01::Case { codec: id, body: b, bad }),
        1 => proptest::sample::select(acc).prop_map(move |x| c01::Case { codec: id, body: vec![x], bad: vec![] }),
    ];
    (vec(c01::bad_char(m), 0..=4), body, vec(c01::bad_char(m), 0..=4)).prop_map(|(lead, body, trail)| Trim { lead, body, trail }).boxed()
}

pub fn run(ctx: &mut Ctx) {
    let max = ctx.pick(300, 2000);
    let cases = ctx.cases(4000, 15);
    ctx.forall("dna_to_iupac_text", cases, gen::seq_spec(CodecId::Dna, max), conv);
    let th = ctx.thorough();
    let lens = gen::long_lens_bits(2, th, ctx.seed);
    ctx.forall_lens("dna_to_iupac_text_long", &lens, |n| gen::seq_spec_n(CodecId::Dna, n), conv);
    let lens = gen::long_lens(th, ctx.seed);
    for id in ALL_CODECS {
        let m = id.model();
        let acc = m.accepted_bytes();
        ctx.forall_lens(
            &format!("trim_long/{}", id.name()),
            &lens,
            |n| {
                let acc = acc.clone();
                (vec(c01::bad_char(m), 0..=3), vec(proptest::sample::select(acc), n), proptest::option::weighted(0.3, (any::<u16>(), c01::bad_char(m))), vec(c01::bad_char(m), 0..=3))
                    .prop_map(move |(lead, body, bad, trail)| Trim { lead, body: c01::Case { codec: id, body, bad: bad.into_iter().collect() }, trail })
            },
            dispatch_trim,
        );
    }
    // long inputs without any acceptable byte, and long paddings around a short body
    for id in ALL_CODECS {
        let m = id.model();
        let refused = m.refused_bytes();
        let acc = m.accepted_bytes();
        ctx.forall_lens(
            &format!("trim_long_padding/{}", id.name()),
            &lens,
            |n| {
                let (refused, acc) = (refused.clone(), acc.clone());
                (vec(proptest::sample::select(refused.clone()), n), vec(proptest::sample::select(acc), 0..=3), prop_oneof![Just(0usize), Just(1usize), Just(n)], proptest::sample::select(refused)).prop_map(move |(pad, body, trail_kind, fill)| {
                    let trail: Vec<Vec<u8>> = match trail_kind {
                        0 => vec![],
                        1 => vec![vec![fill]],
                        _ => pad.iter().rev().map(|b| vec![*b]).collect(),
                    };
                    Trim { lead: pad.iter().map(|b| vec![*b]).collect(), body: c01::Case { codec: id, body, bad: vec![] }, trail }
                })
            },
            dispatch_trim,
        );
    }
    ctx.each("text_to_dna_all_bytes", (0..=255u8).collect::<Vec<u8>>(), text_to_dna);
    let max = ctx.pick(150, 1000);
    for id in ALL_CODECS {
        let cases = ctx.cases(2500, 15);
        ctx.forall(&format!("trim/{}", id.name()), cases, trim_strat(id, max), dispatch_trim);
    }
    ctx.require_class("interior_bad");
    ctx.require_class("all_bad");
    ctx.require_class("empty_input");
    ctx.require_class("both_paddings");
    ctx.require_class("static");
    ctx.require_class("offset");
}
