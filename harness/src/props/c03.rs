//! C03 — slicing and indexing select exactly the requested symbols, or refuse.

use crate::codecs::*;
use crate::gen;
use crate::model::{CodecId, ALL_CODECS};
use crate::obs::*;
use crate::oracle::*;
use bio_seq::prelude::*;
use proptest::collection::vec;
use proptest::prelude::*;
use serde::{Deserialize, Serialize};

#[derive(Clone, Debug, Serialize, Deserialize)]
pub struct RangeOp {
    /// 0: a..b  1: a..=b  2: ..b  3: ..=b  4: a..  5: ..  6: [i]  7: the empty inclusive range a..=a-1
    pub form: u8,
    pub a: u16,
    pub b: u16,
}

#[derive(Clone, Debug, Serialize, Deserialize)]
pub struct Oob {
    /// 0: a..b  1: a..=b  2: ..b  3: ..=b  4: a..  5: [i]  6: nth(i)  7: get(i)
    /// 8: the empty-looking inclusive range x..=x-1 with x past the end  9: x..x with x past the end
    pub kind: u8,
    pub a: u16,
    /// how far past the end (1..=3)
    pub over: u8,
    /// instead of "just past the end": an index far beyond it (selector into a table of huge values)
    #[serde(default)]
    pub far: Option<u8>,
}

/// positions far beyond any sequence, chosen where scaling by the symbol width would wrap
fn far_index(sel: u8, bits: usize) -> usize {
    let t = [
        usize::MAX,
        usize::MAX - 1,
        1usize << 63,
        (1usize << 63) + 1,
        1usize << 62,
        (1usize << 62) + 3,
        1usize << 61,
        1usize << 60,
        usize::MAX / bits,
        (usize::MAX / bits).saturating_add(1),
        (usize::MAX / bits / 2 + 1).saturating_mul(3),
        ((1usize << 63) / bits).saturating_mul(2) - 1,
        1usize << 32,
        (1usize << 32) + 1,
        usize::MAX / 2,
        usize::MAX / 3 + 1,
        usize::MAX / 5 + 1,
        usize::MAX / 6 + 1,
    ];
    t[sel as usize % t.len()]
}

#[derive(Clone, Debug, Serialize, Deserialize)]
pub struct Case {
    pub codec: CodecId,
    pub root: SeqSpec,
    pub path: Vec<RangeOp>,
    pub oob: Option<Oob>,
}

/// resolve an in-bounds operation against a current length: returns (start, end) in symbols
fn resolve(op: &RangeOp, len: usize) -> (u8, usize, usize) {
    let a = scale16(op.a, len);
    let b = a + scale16(op.b, len - a);
    match op.form % 8 {
        7 => {
            if a >= 1 {
                (7, a, a)
            } else {
                (0, a, a)
            }
        }
        0 => (0, a, b),
        1 => {
            if b > a {
                (1, a, b)
            } else {
                (0, a, b)
            }
        }
        2 => (2, 0, b),
        3 => {
            if b > 0 {
                (3, 0, b)
            } else {
                (2, 0, b)
            }
        }
        4 => (4, a, len),
        5 => (5, 0, len),
        _ => {
            if len > 0 {
                let i = scale16(op.a, len - 1);
                (6, i, i + 1)
            } else {
                (5, 0, 0)
            }
        }
    }
}

fn apply<'a, C: Cm>(s: &'a SeqSlice<C>, form: u8, a: usize, b: usize) -> &'a SeqSlice<C> {
    match form {
        0 => &s[a..b],
        1 => &s[a..=b - 1],
        2 => &s[..b],
        3 => &s[..=b - 1],
        4 => &s[a..],
        5 => &s[..],
        7 => &s[a..=a - 1],
        _ => &s[a],
    }
}

fn form_name(f: u8) -> &'static str {
    ["a..b", "a..=b", "..b", "..=b", "a..", "..", "[i]", "a..=a-1"][f as usize]
}

fn check<C: Cm>(case: &Case) -> PResult {
    let sy = Syms::<C>::new()?;
    let n = C::ID.name();
    let bits = sy.bits();
    let built = build(&sy, &case.root)?;
    let root = built.slice();
    let root_codes: Vec<u8> = case.root.codes.clone();
    let mut cur: &SeqSlice<C> = root;
    let mut model: &[u8] = &root_codes;
    let mut abs_start = case.root.repr.pre_len();
    let mut depth = 0;
    for op in &case.path {
        let (form, a, b) = resolve(op, model.len());
        let next = no_panic(&format!("inbounds_panic/{n}"), &format!("in-bounds {} with a={a} b={b} on length {}", form_name(form), model.len()), || apply(cur, form, a, b))?;
        model = &model[a..b];
        abs_start += a;
        cur = next;
        depth += 1;
        check_indexed(&sy, cur, model, &format!("slice/{n}")).map_err(|f| Fail { site: f.site, msg: format!("after {} (a={a}, b={b}) at depth {depth}: {}", form_name(form), f.msg) })?;
    }
    if depth == 0 {
        check_indexed(&sy, cur, model, &format!("slice/{n}"))?;
    }
    // parent unchanged
    check_symbols(&sy, root, &root_codes, &format!("parent/{n}"))?;

    let mut oob_done = false;
    if let Some(o) = &case.oob {
        let len = model.len();
        let over = match o.far {
            // `len + over` is the index used below: make it the far-out value
            Some(sel) => far_index(sel, bits).saturating_sub(len).max(1),
            None => (o.over % 3) as usize + 1,
        };
        let a = scale16(o.a, len);
        let kind = o.kind % 10;
        let what;
        let outcome: Result<Option<String>, String> = match kind {
            0 => {
                what = format!("[{a}..{}] on length {len}", len + over);
                quiet_catch(|| Some(cur[a..len + over].to_string()))
            }
            1 => {
                what = format!("[{a}..={}] on length {len}", len + over - 1);
                quiet_catch(|| Some(cur[a..=len + over - 1].to_string()))
            }
            2 => {
                what = format!("[..{}] on length {len}", len + over);
                quiet_catch(|| Some(cur[..len + over].to_string()))
            }
            3 => {
                what = format!("[..={}] on length {len}", len + over - 1);
                quiet_catch(|| Some(cur[..=len + over - 1].to_string()))
            }
            4 => {
                what = format!("[{}..] on length {len}", len + over);
                quiet_catch(|| Some(cur[len + over..].to_string()))
            }
            5 => {
                what = format!("[{}] on length {len}", len + over - 1);
                quiet_catch(|| Some(cur[len + over - 1].to_string()))
            }
            8 => {
                what = format!("[{}..={}] on length {len}", len + over, len + over - 1);
                quiet_catch(|| Some(cur[len + over..=len + over - 1].to_string()))
            }
            9 => {
                what = format!("[{0}..{0}] on length {len}", len + over);
                quiet_catch(|| Some(cur[len + over..len + over].to_string()))
            }
            6 => {
                what = format!("nth({}) on length {len}", len + over - 1);
                quiet_catch(|| Some(format!("{:?}", cur.nth(len + over - 1))))
            }
            _ => {
                what = format!("get({}) on length {len}", len + over - 1);
                quiet_catch(|| cur.get(len + over - 1).map(|x| format!("{x:?}")))
            }
        };
        match (kind, outcome) {
            (7, Ok(None)) => {}
            (7, Ok(Some(v))) => fail!(format!("get_oob/{n}"), "{what} returned Some({v})"),
            (7, Err(p)) => fail!(format!("get_oob_panic/{n}"), "{what} panicked instead of returning None: {p}"),
            (_, Ok(v)) => fail!(format!("oob_returned/{n}"), "{what} returned {:?} instead of panicking", v.unwrap_or_default()),
            (_, Err(_)) => {}
        }
        oob_done = true;
    }
    let start_bit = abs_start * bits;
    let crosses = (start_bit % 64) + model.len() * bits > 64;
    let nt = depth >= 2 || (start_bit % 64 != 0 && crosses);
    Ok(Pass::new(nt)
        .class_if(oob_done, "oob")
        .class_if(case.oob.as_ref().map_or(false, |o| o.far.is_some()), "oob_far")
        .class_if(depth >= 2, "nested")
        .class_if(start_bit % 64 != 0 && crosses, "unaligned_crossing")
        .class_if(built.is_static(), "static_root"))
}

pub fn dispatch(case: &Case) -> PResult {
    with_codec!(case.codec, C, check::<C>(case))
}

fn case_strategy(id: CodecId, max: usize) -> BoxedStrategy<Case> {
    let op = (0..8u8, any::<u16>(), any::<u16>()).prop_map(|(form, a, b)| RangeOp { form, a, b });
    let oob = prop_oneof![
        3 => Just(None),
        1 => (0..10u8, any::<u16>(), 0..3u8, proptest::option::weighted(0.35, any::<u8>())).prop_map(|(kind, a, over, far)| Some(Oob { kind, a, over, far })),
    ];
    (gen::seq_spec(id, max), vec(op, 1..=3), oob).prop_map(move |(root, path, oob)| Case { codec: id, root, path, oob }).boxed()
}

pub fn run(ctx: &mut Ctx) {
    let max = ctx.pick(150, 1200);
    for id in ALL_CODECS {
        let cases = ctx.cases(4000, 10);
        ctx.forall(&format!("paths/{}", id.name()), cases, case_strategy(id, max), dispatch);
    }
    // bounded-exhaustive: every (a, b), every range form, every out-of-bounds kind, on a window that
    // starts one symbol into its parent and spans two words
    for id in ALL_CODECS {
        let m = id.model();
        let len = (2 * 64 / m.bits + 2).min(ctx.pick(40, 130));
        let codes: Vec<u8> = (0..len).map(|i| m.codes()[(i * 7 + i / 3) % m.nsyms()]).collect();
        let pre = vec![m.codes()[m.nsyms() - 1]];
        let post = vec![m.codes()[0], m.codes()[m.nsyms() - 1]];
        let root = SeqSpec { codes, repr: Repr::Slice { pre, post } };
        let mut cases = vec![];
        for a in 0..=len {
            for b in a..=len {
                for form in [0u8, 1, 2, 3, 4, 6, 7] {
                    // exact (a, b): encode through the inverse of scale16
                    let enc = |v: usize, max: usize| -> u16 { (((v << 16) + max) / (max + 1)).min(65535) as u16 };
                    let op = RangeOp { form, a: enc(a, len), b: enc(b - a, len - a) };
                    cases.push(Case { codec: id, root: root.clone(), path: vec![op], oob: None });
                }
            }
        }
        for kind in 0..10u8 {
            for over in 0..3u8 {
                for a in [0u16, 30000, 65535] {
                    cases.push(Case { codec: id, root: root.clone(), path: vec![RangeOp { form: 5, a: 0, b: 0 }], oob: Some(Oob { kind, a, over, far: None }) });
                    cases.push(Case { codec: id, root: root.clone(), path: vec![RangeOp { form: 0, a: 9000, b: 40000 }], oob: Some(Oob { kind, a, over, far: None }) });
                }
            }
        }
        // every out-of-bounds kind x every far-out index (incl. those whose bit position wraps)
        for kind in 0..10u8 {
            for sel in 0..18u8 {
                for a in [0u16, 65535] {
                    cases.push(Case { codec: id, root: root.clone(), path: vec![RangeOp { form: 5, a: 0, b: 0 }], oob: Some(Oob { kind, a, over: 0, far: Some(sel) }) });
                }
            }
        }
        ctx.each(&format!("all_ranges/{}", id.name()), cases, dispatch);
    }
    // long roots
    for id in ALL_CODECS {
        let lens = gen::long_lens(ctx.thorough(), ctx.seed);
        ctx.forall_lens(
            &format!("paths_long/{}", id.name()),
            &lens,
            |n| {
                let op = (0..8u8, any::<u16>(), any::<u16>()).prop_map(|(form, a, b)| RangeOp { form, a, b });
                (gen::seq_spec_n(id, n), vec(op, 1..=3)).prop_map(move |(root, path)| Case { codec: id, root, path, oob: None })
            },
            dispatch,
        );
    }
    ctx.require_class("oob");
    ctx.require_class("oob_far");
    ctx.require_class("nested");
    ctx.require_class("unaligned_crossing");
    ctx.require_class("static_root");
}
