//! C14 — ambiguous-codon translation is sound and complete; reverse translation is exact.

use crate::codecs::*;
use crate::model::{self, CodecId};
use crate::obs::*;
use bio_seq::prelude::*;
use bio_seq::translation::{PartialTranslationTable, TranslationError, STANDARD};
use serde::{Deserialize, Serialize};
use std::collections::BTreeSet;

#[derive(Clone, Debug, Serialize, Deserialize)]
pub struct Cell {
    /// three IUPAC set bitmaps (A=8 C=4 G=2 T=1)
    pub codon: [u8; 3],
    /// symbols in front of the codon in its parent
    pub pre: u8,
}

fn members(set: u8) -> Vec<u8> {
    let mut v = vec![];
    for (bit, l) in [(8u8, b'A'), (4, b'C'), (2, b'G'), (1, b'T')] {
        if set & bit != 0 {
            v.push(l);
        }
    }
    v
}

/// all concrete DNA codons matching an IUPAC codon
fn expand(codon: &[u8; 3]) -> Vec<[u8; 3]> {
    let mut out = vec![];
    for a in members(codon[0]) {
        for b in members(codon[1]) {
            for c in members(codon[2]) {
                out.push([a, b, c]);
            }
        }
    }
    out
}

fn text(codon: &[u8]) -> String {
    codon.iter().map(|&s| model::letter_of_set(s) as char).collect()
}

fn cell(c: &Cell) -> PResult {
    let sy = Syms::<IupacC>::new()?;
    let m = sy.m;
    let pre: Vec<u8> = (0..c.pre as usize).map(|i| m.codes()[(i * 7 + 5) % 16]).collect();
    let spec = SeqSpec { codes: c.codon.to_vec(), repr: Repr::Slice { pre, post: vec![15, 0, 9] } };
    let b = build(&sy, &spec)?;
    let what = format!("codon {} at symbol offset {}", text(&c.codon), c.pre);
    let got = no_panic("try_to_amino_panic", &format!("STANDARD.try_to_amino, {what}"), || STANDARD.try_to_amino(b.slice()))?;
    let gap_free = c.codon.iter().all(|&s| s != 0);
    if !gap_free {
        // a gap matches no concrete codon: only "does not panic" is required
        return Ok(Pass::new(false).class("gap"));
    }
    let exp: BTreeSet<u8> = expand(&c.codon).iter().map(|k| model::ncbi_translate(k)).collect();
    if exp.len() == 1 {
        let aa = *exp.iter().next().unwrap();
        match got {
            Ok(a) => ensure_eq!(a.to_char(), aa as char, "unambiguous_wrong_amino", "{what}: every matching codon codes for {}", aa as char),
            Err(e) => fail!("unambiguous_rejected", "{what}: every matching DNA codon codes for {} but translation returned {e:?}", aa as char),
        }
    } else {
        match got {
            Err(TranslationError::AmbiguousTranslation(_)) => {}
            Ok(a) => fail!("ambiguous_accepted", "{what}: matching codons code for {:?} but translation returned {}", exp.iter().map(|x| *x as char).collect::<String>(), a.to_char()),
            Err(e) => fail!("ambiguous_wrong_error", "{what}: expected AmbiguousTranslation, got {e:?}"),
        }
    }
    let n = expand(&c.codon).len();
    Ok(Pass::new(n >= 2).class_if(exp.len() == 1 && n >= 2, "degenerate_unambiguous").class_if(exp.len() > 1, "ambiguous").class_if((c.pre as usize * 4) % 64 > 52, "straddles_word"))
}

#[derive(Clone, Debug, Serialize, Deserialize)]
pub struct LenCell {
    pub codes: Vec<u8>,
    pub pre: u8,
}

fn wrong_len(c: &LenCell) -> PResult {
    let sy = Syms::<IupacC>::new()?;
    let pre: Vec<u8> = (0..c.pre as usize).map(|i| sy.m.codes()[(i * 3 + 1) % 16]).collect();
    let spec = SeqSpec { codes: c.codes.clone(), repr: Repr::Slice { pre, post: vec![8] } };
    let b = build(&sy, &spec)?;
    let got = no_panic("try_to_amino_panic", "try_to_amino on a wrong-length codon", || STANDARD.try_to_amino(b.slice()))?;
    match got {
        Err(TranslationError::InvalidCodon(_)) => Ok(Pass::new(true)),
        other => fail!("wrong_length", "codon {:?} of length {} gave {other:?} instead of InvalidCodon", text(&c.codes), c.codes.len()),
    }
}

fn reverse(aa: &u8) -> PResult {
    let sa = Syms::<AminoC>::new()?;
    let si = Syms::<IupacC>::new()?;
    let aa = *aa;
    let amino = sa.sym(sa.m.parse_byte(aa).unwrap());
    // the DNA codons coding for this amino acid under NCBI table 1
    let mut want: BTreeSet<[u8; 3]> = BTreeSet::new();
    for p in 0..64u8 {
        let k = model::pattern_codon(p);
        if model::ncbi_translate(&k) == aa {
            want.insert(k);
        }
    }
    // search all 15^3 gap-free IUPAC codons for one matching all and only those
    let mut exact: Option<[u8; 3]> = None;
    for a in 1..16u8 {
        for b in 1..16u8 {
            for c in 1..16u8 {
                let e: BTreeSet<[u8; 3]> = expand(&[a, b, c]).into_iter().collect();
                if e == want {
                    exact = Some([a, b, c]);
                }
            }
        }
    }
    let got = no_panic("try_to_codon_panic", "STANDARD.try_to_codon", || PartialTranslationTable::<IupacC, AminoC>::try_to_codon(&STANDARD, amino))?;
    match (exact, got) {
        (Some(k), Ok(s)) => {
            ensure_eq!(codes_of(&s), k.to_vec(), "reverse_codon", "try_to_codon({}) should be {}", aa as char, text(&k));
            let back = STANDARD.try_to_amino(&s);
            ensure!(matches!(back, Ok(x) if x == amino), "reverse_roundtrip", "try_to_amino(try_to_codon({})) = {back:?}", aa as char);
            let _ = si;
            Ok(Pass::new(true).class("reverse_exact"))
        }
        (Some(k), Err(e)) => fail!("reverse_missing", "amino {} is exactly the codon {} but try_to_codon returned {e:?}", aa as char, text(&k)),
        (None, Err(TranslationError::AmbiguousCodon(x))) if x == amino => Ok(Pass::new(true).class("reverse_ambiguous")),
        (None, other) => fail!("reverse_not_ambiguous", "no single IUPAC codon matches exactly the codons of {}, but try_to_codon returned {other:?}", aa as char),
    }
}

pub fn run(ctx: &mut Ctx) {
    // The standard IUPAC tables are process-global and built on first use; which direction is used
    // first is therefore part of the history. The driver runs one process per order.
    let aas: Vec<u8> = model::AMINO_CANON.iter().map(|x| x.0).collect();
    if ctx.order == 1 {
        if matches!(ctx.mode, crate::obs::Mode::Replay { .. }) {
            // a replayed forward case of this order: the reverse table was touched first
            let _ = bio_seq::translation::STANDARD.try_to_codon(bio_seq::prelude::Amino::A);
        }
        ctx.each("reverse", aas.clone(), reverse);
    }
    let mut cells = vec![];
    for a in 0..16u8 {
        for b in 0..16u8 {
            for c in 0..16u8 {
                for pre in [0u8, 1, 13, 14, 15] {
                    cells.push(Cell { codon: [a, b, c], pre });
                }
            }
        }
    }
    ctx.each("all_codons_x_offsets", cells, cell);
    let m = CodecId::Iupac.model();
    let mut lens = vec![];
    let mut wrong: Vec<usize> = (0..=140usize).filter(|l| *l != 3).collect();
    wrong.extend([195, 259, 515, 1027, 4099]);
    for len in wrong {
        for pre in [0u8, 1, 14, 15] {
            for k in 0..(if len <= 6 { 6 } else { 1 }) {
                lens.push(LenCell { codes: (0..len).map(|i| m.codes()[(i * 5 + k * 3 + 1) % 16]).collect(), pre });
            }
        }
    }
    ctx.each("wrong_length", lens, wrong_len);
    if ctx.order != 1 {
        ctx.each("reverse", aas, reverse);
    }
    ctx.require_class("degenerate_unambiguous");
    ctx.require_class("ambiguous");
    ctx.require_class("straddles_word");
    ctx.require_class("reverse_exact");
    ctx.require_class("reverse_ambiguous");
}
