//! C15 — custom codon tables are faithful bidirectional maps.

use crate::codecs::*;
use crate::gen;
use crate::model::{self, CodecId};
use crate::obs::*;
use bio_seq::prelude::*;
use bio_seq::translation::{CodonTable, PartialTranslationTable, TranslationError};
use proptest::collection::vec;
use proptest::prelude::*;
use serde::{Deserialize, Serialize};
use std::collections::{BTreeMap, HashMap};

#[derive(Clone, Debug, Serialize, Deserialize)]
pub struct Query {
    pub codes: Vec<u8>,
    pub pre: Vec<u8>,
    /// 0: owned, 1: window at offset, 2: offset-born owned copy
    pub how: u8,
}

#[derive(Clone, Debug, Serialize, Deserialize)]
pub struct Case {
    pub codec: CodecId,
    /// (key codes, amino index into the 21 aminos, how the owned key sequence is produced)
    pub entries: Vec<(Vec<u8>, u8, Repr)>,
    pub queries: Vec<Query>,
    pub builds: u8,
    /// the target alphabet: the built-in amino codec, or a user-defined 7-/8-bit residue alphabet
    #[serde(default)]
    pub target: Option<CodecId>,
}

fn check<A: Cm, B: Cm>(case: &Case) -> PResult {
    let sy = Syms::<A>::new()?;
    let sa = Syms::<B>::new()?;
    let n = A::ID.name();
    // the 21 amino symbols in canonical order, or all symbols of the user-defined target alphabet
    let aminos: Vec<u8> = if B::ID == CodecId::Amino { model::AMINO_CANON.iter().map(|x| sa.m.parse_byte(x.0).unwrap()).collect() } else { sa.m.codes() };
    let na = aminos.len();
    // model: last insertion for a key wins (HashMap::insert semantics while the caller builds the map)
    let mut fwd: BTreeMap<Vec<u8>, u8> = BTreeMap::new();
    let mut key_repr: BTreeMap<Vec<u8>, Repr> = BTreeMap::new();
    for (k, a, r) in &case.entries {
        fwd.insert(k.clone(), aminos[*a as usize % na]);
        key_repr.insert(k.clone(), r.clone());
    }
    let mut inv: BTreeMap<u8, Vec<Vec<u8>>> = BTreeMap::new();
    for (k, a) in &fwd {
        inv.entry(*a).or_default().push(k.clone());
    }
    let mut offset_query = false;
    let builds = case.builds.max(1);
    for round in 0..=builds {
        // a fresh HashMap each round: std's RandomState gives a new iteration order every time
        let mut map: HashMap<Seq<A>, B> = HashMap::new();
        let mut rows: Option<Vec<(Seq<A>, B)>> = None;
        if round == builds {
            // the documented calling form: an array of rows, in generated order, repeated keys included
            // (`HashMap::from([..])`: the last row for a key wins, like the model)
            let mut v = vec![];
            for (k, a, r) in &case.entries {
                let key = build(&sy, &SeqSpec { codes: k.clone(), repr: r.clone() })?.into_seq();
                v.push((key, sa.sym(aminos[*a as usize % na])));
            }
            rows = Some(v);
        } else if round % 2 == 0 {
            // keys in their generated provenance (copied out of a longer sequence, truncated, edited, ...)
            for (k, a, r) in &case.entries {
                let key = build(&sy, &SeqSpec { codes: k.clone(), repr: r.clone() })?.into_seq();
                map.insert(key, sa.sym(aminos[*a as usize % na]));
            }
        } else if round % 4 == 1 {
            for (k, a) in fwd.iter().rev() {
                map.insert(sy.seq(k), sa.sym(*a));
            }
        } else {
            for (k, a) in fwd.iter().rev() {
                let key = build(&sy, &SeqSpec { codes: k.clone(), repr: key_repr[k].clone() })?.into_seq();
                map.insert(key, sa.sym(*a));
            }
        }
        let table: CodonTable<A, B> = match rows {
            None => no_panic(&format!("from_map_panic/{n}"), "CodonTable::from_map", || CodonTable::from_map(map))?,
            Some(v) => no_panic(&format!("from_map_panic/{n}"), "CodonTable::from_map([rows])", || from_rows::<A, B>(v))?,
        };
        // forward lookups: every key and the generated queries
        let mut qs: Vec<Query> = case.queries.clone();
        for (i, k) in fwd.keys().enumerate() {
            let pre = case.queries.get(i % case.queries.len().max(1)).map(|q| q.pre.clone()).unwrap_or_default();
            qs.push(Query { codes: k.clone(), pre, how: (i % 3) as u8 });
        }
        for q in &qs {
            let spec = match q.how % 3 {
                0 => SeqSpec::plain(q.codes.clone()),
                1 => SeqSpec { codes: q.codes.clone(), repr: Repr::Slice { pre: q.pre.clone(), post: vec![sy.m.codes()[0]] } },
                _ => SeqSpec { codes: q.codes.clone(), repr: Repr::OffsetOwned { pre: q.pre.clone(), post: vec![] } },
            };
            let b = build(&sy, &spec)?;
            if q.how % 3 == 1 && (q.pre.len() * sy.bits()) % 64 != 0 {
                offset_query = true;
            }
            let got = no_panic(&format!("try_to_amino_panic/{n}"), "CodonTable::try_to_amino", || table.try_to_amino(b.slice()))?;
            let what = format!("round {round}: codon {} (how={}, {} symbols in front)", sy.text(&q.codes), q.how % 3, q.pre.len());
            match (fwd.get(&q.codes), got) {
                (Some(a), Ok(x)) => ensure_eq!(x.to_bits(), *a, format!("forward_value/{n}"), "{what}"),
                (Some(a), Err(e)) => fail!(format!("forward_missing/{n}"), "{what} is a key mapped to {} but lookup returned {e:?}", sa.m.ch(*a) as char),
                (None, Err(TranslationError::InvalidCodon(_))) => {}
                (None, Err(e)) => fail!(format!("forward_wrong_error/{n}"), "{what} is not a key; expected InvalidCodon, got {e:?}"),
                (None, Ok(x)) => fail!(format!("forward_invented/{n}"), "{what} is not a key but translated to {}", x.to_char()),
            }
        }
        // reverse lookups for all 21 amino symbols
        for a in &aminos {
            let amino = sa.sym(*a);
            let got = no_panic(&format!("try_to_codon_panic/{n}"), "CodonTable::try_to_codon", || table.try_to_codon(amino))?;
            let what = format!("round {round}: amino {}", sa.m.ch(*a) as char);
            match (inv.get(a).map(|v| v.as_slice()), got) {
                (Some([k]), Ok(s)) => ensure_eq!(codes_of(&s), k.clone(), format!("reverse_value/{n}"), "{what} unique codon"),
                (Some([k]), Err(e)) => fail!(format!("reverse_missing/{n}"), "{what} has the unique codon {} but lookup returned {e:?}", sy.text(k)),
                (Some(ks), Err(TranslationError::AmbiguousCodon(x))) if ks.len() >= 2 => ensure!(x == amino, format!("reverse_err_payload/{n}"), "{what}: AmbiguousCodon carries {x:?}"),
                (Some(ks), other) if ks.len() >= 2 => fail!(format!("reverse_not_ambiguous/{n}"), "{what} has {} codons but lookup returned {other:?}", ks.len()),
                (None, Err(TranslationError::InvalidAmino(x))) => ensure!(x == amino, format!("reverse_err_payload/{n}"), "{what}: InvalidAmino carries {x:?}"),
                (None, other) => fail!(format!("reverse_not_invalid/{n}"), "{what} has no codon but lookup returned {other:?}"),
                (Some(_), other) => fail!("harness", "unreachable inverse shape: {other:?}"),
            }
        }
    }
    let multi = inv.values().any(|v| v.len() >= 2);
    let single = inv.values().any(|v| v.len() == 1);
    let three = inv.values().any(|v| v.len() >= 3);
    Ok(Pass::new(multi && single && offset_query)
        .class_if(multi, "ambiguous_amino")
        .class_if(three, "three_preimages")
        .class_if(single, "unique_amino")
        .class_if(fwd.is_empty(), "empty_table")
        .class_if(fwd.len() < case.entries.len(), "repeated_key_rows")
        .class_if(offset_query, "offset_query")
        .class_if(case.entries.iter().any(|e| !e.2.is_plain()), "key_with_history"))
}

/// `CodonTable::from_map([(codon, amino); N])` for the N at hand (N <= 24 is what the generator makes;
/// longer inputs go through a HashMap built row by row, which has the same last-row-wins meaning)
fn from_rows<A: Cm, B: Cm>(v: Vec<(Seq<A>, B)>) -> CodonTable<A, B> {
    macro_rules! sized {
        ($($n:literal)*) => {
            match v.len() {
                $($n => {
                    let a: [(Seq<A>, B); $n] = v.try_into().ok().expect("length matched");
                    CodonTable::from_map(a)
                })*
                _ => {
                    let mut m = HashMap::new();
                    for (k, a) in v {
                        m.insert(k, a);
                    }
                    CodonTable::from_map(m)
                }
            }
        };
    }
    sized!(0 1 2 3 4 5 6 7 8 9 10 11 12 13 14 15 16 17 18 19 20 21 22 23 24)
}

pub fn dispatch(case: &Case) -> PResult {
    match (case.codec, case.target.unwrap_or(CodecId::Amino)) {
        (CodecId::Dna, CodecId::Amino) => check::<DnaC, AminoC>(case),
        (CodecId::Iupac, CodecId::Amino) => check::<IupacC, AminoC>(case),
        (CodecId::Dna, CodecId::Oct) => check::<DnaC, OctC>(case),
        (CodecId::Dna, CodecId::Sept) => check::<DnaC, SeptC>(case),
        (CodecId::Iupac, CodecId::Oct) => check::<IupacC, OctC>(case),
        _ => fail!("harness", "codon codec must be Dna or Iupac, target Amino, custom7 or custom8"),
    }
}

fn strat(id: CodecId, target: CodecId, builds: u8) -> BoxedStrategy<Case> {
    let m = id.model();
    let key = (1..=4usize).prop_flat_map(move |l| vec(gen::code(m), l));
    // few distinct aminos so that 0, 1, 2 and 3+ preimages all occur
    let entries = (1..=8u8).prop_flat_map(move |span| vec((key.clone(), 0..span, gen::owned_repr(m)), 0..=24));
    entries
        .prop_flat_map(move |entries| {
            let keys: Vec<Vec<u8>> = entries.iter().map(|e| e.0.clone()).collect();
            let near = if keys.is_empty() {
                vec(gen::code(m), 1..=4).boxed()
            } else {
                let keys2 = keys.clone();
                prop_oneof![
                    // same length different content, prefix, extension, or random
                    2 => (0..keys.len(), gen::code(m), any::<u16>()).prop_map(move |(i, c, p)| { let mut k = keys2[i].clone(); let at = scale16(p, k.len() - 1); k[at] = c; k }),
                    1 => (0..keys.len()).prop_map({ let k3 = keys.clone(); move |i| { let k = &k3[i]; k[..k.len() - 1].to_vec() } }),
                    1 => (0..keys.len(), gen::code(m)).prop_map({ let k3 = keys.clone(); move |(i, c)| { let mut k = k3[i].clone(); k.push(c); k } }),
                    1 => vec(gen::code(m), 1..=4),
                ]
                .boxed()
            };
            let q = (near, gen::pre_flank(m), 0..3u8).prop_map(|(codes, pre, how)| Query { codes, pre, how });
            (Just(entries), vec(q, 1..=8))
        })
        .prop_map(move |(entries, queries)| Case { codec: id, entries, queries, builds, target: Some(target) })
        .boxed()
}

pub fn run(ctx: &mut Ctx) {
    let builds = ctx.pick(6, 40);
    for id in [CodecId::Dna, CodecId::Iupac] {
        let cases = ctx.cases(3000, 8);
        ctx.forall(&format!("tables/{}", id.name()), cases, strat(id, CodecId::Amino, builds), dispatch);
    }
    // the table type is generic in its target alphabet too: user-defined residue alphabets of 7 and 8 bits
    for (id, target) in [(CodecId::Dna, CodecId::Oct), (CodecId::Dna, CodecId::Sept), (CodecId::Iupac, CodecId::Oct)] {
        let cases = ctx.cases(800, 8);
        ctx.forall(&format!("tables/{}_to_{}", id.name(), target.name()), cases, strat(id, target, builds), dispatch);
    }
    // the in-tree example table and the standard code as a custom table (all 64 codons -> 21 aminos)
    let mut entries = vec![];
    for p in 0..64u8 {
        let k = model::pattern_codon(p);
        let aa = model::ncbi_translate(&k);
        let idx = model::AMINO_CANON.iter().position(|x| x.0 == aa).unwrap() as u8;
        let pre: Vec<u8> = (0..(p % 7) as usize).map(|i| ((i + p as usize) % 4) as u8).collect();
        entries.push((k.iter().map(|&b| model::dna_code(b)).collect::<Vec<u8>>(), idx, Repr::OffsetOwned { pre, post: vec![3, 3] }));
    }
    let queries: Vec<Query> = (0..64u8).map(|p| Query { codes: model::pattern_codon(p).iter().map(|&b| model::dna_code(b)).collect(), pre: vec![1; (p % 33) as usize], how: 1 }).collect();
    let mut queries = queries;
    for (i, q) in [vec![], vec![0u8], vec![0, 1], vec![3, 2], vec![3, 2, 2, 0], vec![0, 0, 0, 0], vec![1, 1, 1, 3], vec![2, 0, 0, 0, 0]].into_iter().enumerate() {
        queries.push(Query { codes: q, pre: vec![2; i * 5 % 33], how: (i % 3) as u8 });
    }
    ctx.each("standard_code_as_custom_table", vec![Case { codec: CodecId::Dna, entries, queries, builds: 20, target: None }], dispatch);
    // many codons for one amino acid: 255, 256, 257 and 512 preimages (counters narrower than the table)
    let mut big = vec![];
    for (count, extra_amino) in [(255usize, false), (256, false), (257, true), (512, true)] {
        let mut entries: Vec<(Vec<u8>, u8, Repr)> = vec![];
        let mut k = 0usize;
        // 4-mers first, then 5-mers
        'outer: for len in [4usize, 5] {
            for v in 0..4usize.pow(len as u32) {
                if k == count {
                    break 'outer;
                }
                entries.push(((0..len).map(|i| ((v >> (2 * i)) & 3) as u8).collect(), 0, Repr::Collect));
                k += 1;
            }
        }
        if extra_amino {
            entries.push((vec![0, 1, 2], 1, Repr::Collect));
            entries.push((vec![3, 1, 2], 2, Repr::Collect));
            entries.push((vec![3, 3, 2], 2, Repr::Collect));
        }
        let queries = vec![Query { codes: vec![0, 0, 0, 0], pre: vec![1], how: 1 }, Query { codes: vec![0, 1, 2], pre: vec![], how: 0 }, Query { codes: vec![3, 3, 3, 3, 3, 3], pre: vec![2, 2], how: 2 }];
        big.push(Case { codec: CodecId::Dna, entries, queries, builds: 2, target: None });
    }
    ctx.each("many_codons_per_amino", big, dispatch);
    ctx.require_class("ambiguous_amino");
    ctx.require_class("three_preimages");
    ctx.require_class("unique_amino");
    ctx.require_class("empty_table");
    ctx.require_class("offset_query");
    ctx.require_class("key_with_history");
}
