//! C18 — serialization round trip preserves sequences and k-mers.

use crate::codecs::*;
use crate::gen;
use crate::kmers::*;
use crate::model::{CodecId, ALL_CODECS};
use crate::obs::*;
use crate::oracle::*;
use bio_seq::prelude::*;
use proptest::prelude::*;
use proptest::sample::select;
use serde::{Deserialize, Serialize};

#[derive(Clone, Debug, Serialize, Deserialize)]
pub struct Case {
    pub codec: CodecId,
    pub s: SeqSpec,
}

fn check<C: Cm>(case: &Case) -> PResult {
    let sy = Syms::<C>::new()?;
    let n_ = C::ID.name();
    let codes = &case.s.codes;
    let kind = case.s.repr.kind();
    let orig: Seq<C> = build(&sy, &case.s)?.into_seq();
    let what = format!("{}-symbol {n_} sequence produced by `{kind}`", codes.len());
    // binary format
    let bytes = no_panic(&format!("bincode_ser_panic/{n_}"), "bincode::serialize", || bincode::serialize(&orig))?;
    let bytes = bytes.map_err(|e| Fail { site: format!("bincode_ser/{n_}"), msg: format!("bincode::serialize of a {what} failed: {e}") })?;
    let back: Result<Seq<C>, _> = no_panic(&format!("bincode_de_panic/{n_}"), "bincode::deserialize", || bincode::deserialize(&bytes))?;
    let back = back.map_err(|e| Fail { site: format!("bincode_de/{n_}"), msg: format!("bincode::deserialize of a serialized {what} failed: {e}") })?;
    ensure!(back == orig && orig == back, format!("bincode_eq/{n_}"), "bincode round trip of a {what}: {back} != {orig}");
    check_content(&sy, &back, codes, &format!("bincode_content/{n_}"))?;
    check_same_hash(&back, &orig, &format!("bincode_hash/{n_}"), &format!("bincode round trip of a {what}"))?;
    // text format
    let text = no_panic(&format!("json_ser_panic/{n_}"), "serde_json::to_string", || serde_json::to_string(&orig))?;
    let text = text.map_err(|e| Fail { site: format!("json_ser/{n_}"), msg: format!("serde_json::to_string of a {what} failed: {e}") })?;
    let jback: Result<Seq<C>, _> = no_panic(&format!("json_de_panic/{n_}"), "serde_json::from_str", || serde_json::from_str(&text))?;
    let jback = jback.map_err(|e| Fail { site: format!("json_de/{n_}"), msg: format!("serde_json::from_str of a serialized {what} failed: {e}; text = {text}") })?;
    ensure!(jback == orig && orig == jback, format!("json_eq/{n_}"), "JSON round trip of a {what}: {jback} != {orig}");
    check_content(&sy, &jback, codes, &format!("json_content/{n_}"))?;
    check_same_hash(&jback, &orig, &format!("json_hash/{n_}"), &format!("JSON round trip of a {what}"))?;
    // the same formats through their other entry points (readers, slices, the JSON value tree):
    // deserializers that cannot lend borrowed strings or that buffer differently
    let r1: Result<Seq<C>, _> = no_panic(&format!("json_de_panic/{n_}"), "serde_json::from_reader", || serde_json::from_reader(text.as_bytes()))?;
    let r1 = r1.map_err(|e| Fail { site: format!("json_reader_de/{n_}"), msg: format!("serde_json::from_reader of a serialized {what} failed: {e}") })?;
    ensure!(r1 == orig, format!("json_reader_eq/{n_}"), "JSON (reader) round trip of a {what}: {r1} != {orig}");
    let r2: Result<Seq<C>, _> = serde_json::from_slice(text.as_bytes());
    let r2 = r2.map_err(|e| Fail { site: format!("json_slice_de/{n_}"), msg: format!("serde_json::from_slice of a serialized {what} failed: {e}") })?;
    ensure!(r2 == orig, format!("json_slice_eq/{n_}"), "JSON (slice) round trip of a {what}");
    let val = serde_json::to_value(&orig).map_err(|e| Fail { site: format!("json_value_ser/{n_}"), msg: e.to_string() })?;
    let r3: Result<Seq<C>, _> = serde_json::from_value(val);
    let r3 = r3.map_err(|e| Fail { site: format!("json_value_de/{n_}"), msg: format!("serde_json::from_value(to_value(..)) of a {what} failed: {e}") })?;
    ensure!(r3 == orig, format!("json_value_eq/{n_}"), "JSON (value tree) round trip of a {what}");
    let pretty = serde_json::to_string_pretty(&orig).map_err(|e| Fail { site: format!("json_pretty_ser/{n_}"), msg: e.to_string() })?;
    let r4: Result<Seq<C>, _> = serde_json::from_str(&pretty);
    let r4 = r4.map_err(|e| Fail { site: format!("json_pretty_de/{n_}"), msg: format!("serde_json::from_str of pretty-printed {what} failed: {e}") })?;
    ensure!(r4 == orig, format!("json_pretty_eq/{n_}"), "JSON (pretty) round trip of a {what}");
    let r5: Result<Seq<C>, _> = bincode::deserialize_from(&bytes[..]);
    let r5 = r5.map_err(|e| Fail { site: format!("bincode_reader_de/{n_}"), msg: format!("bincode::deserialize_from of a serialized {what} failed: {e}") })?;
    ensure!(r5 == orig, format!("bincode_reader_eq/{n_}"), "bincode (reader) round trip of a {what}");
    let mut sink: Vec<u8> = vec![];
    bincode::serialize_into(&mut sink, &orig).map_err(|e| Fail { site: format!("bincode_ser/{n_}"), msg: e.to_string() })?;
    ensure!(sink == bytes, format!("bincode_writer/{n_}"), "bincode::serialize_into and serialize disagree for a {what}");
    // the same bytes at every alignment of the input buffer, and the sequence as a field of a larger
    // record (behind a tag, after a name of any length): where the image starts must not matter
    let shifts: &[usize] = if codes.len() <= 300 { &[1, 2, 3, 4, 5, 6, 7, 8] } else { &[1, 4] };
    for &k in shifts {
        let mut buf = vec![0xA5u8; k];
        buf.extend_from_slice(&bytes);
        let r: Result<Seq<C>, _> = no_panic(&format!("bincode_de_panic/{n_}"), "bincode::deserialize at a buffer offset", || bincode::deserialize(&buf[k..]))?;
        let r = r.map_err(|e| Fail { site: format!("bincode_shifted_de/{n_}"), msg: format!("bincode::deserialize of a serialized {what} from offset {k} of a buffer failed: {e}") })?;
        ensure!(r == orig, format!("bincode_shifted_eq/{n_}"), "bincode round trip of a {what} read from offset {k} of a buffer: {r} != {orig}");
        check_content(&sy, &r, codes, &format!("bincode_shifted_content/{n_}"))?;
    }
    for name_len in [0usize, 1, 3, 5, 8, codes.len() % 11] {
        let rec: (String, Option<Seq<C>>, u8, Vec<Seq<C>>) = ("n".repeat(name_len), Some(orig.clone()), 7, vec![orig.clone(), orig.clone()]);
        let b = bincode::serialize(&rec).map_err(|e| Fail { site: format!("bincode_ser/{n_}"), msg: e.to_string() })?;
        let r: Result<(String, Option<Seq<C>>, u8, Vec<Seq<C>>), _> = no_panic(&format!("bincode_de_panic/{n_}"), "bincode::deserialize of a record", || bincode::deserialize(&b))?;
        let r = r.map_err(|e| Fail { site: format!("bincode_record_de/{n_}"), msg: format!("bincode::deserialize of a record holding a {what} failed: {e}") })?;
        ensure!(r.0 == rec.0 && r.2 == 7 && r.1.as_ref() == Some(&orig) && r.3.len() == 2 && r.3[0] == orig && r.3[1] == orig, format!("bincode_record_eq/{n_}"), "bincode round trip of a record (name of {name_len} bytes, Option, Vec) holding a {what}");
        check_content(&sy, r.1.as_ref().unwrap(), codes, &format!("bincode_record_content/{n_}"))?;
        check_content(&sy, &r.3[1], codes, &format!("bincode_record_content/{n_}"))?;
        if name_len <= 1 {
            let t = serde_json::to_string(&rec).map_err(|e| Fail { site: format!("json_ser/{n_}"), msg: e.to_string() })?;
            let r: Result<(String, Option<Seq<C>>, u8, Vec<Seq<C>>), _> = serde_json::from_str(&t);
            let r = r.map_err(|e| Fail { site: format!("json_record_de/{n_}"), msg: format!("serde_json::from_str of a record holding a {what} failed: {e}") })?;
            ensure!(r.1.as_ref() == Some(&orig) && r.3.len() == 2 && r.3[0] == orig && r.3[1] == orig, format!("json_record_eq/{n_}"), "JSON round trip of a record holding a {what}");
            check_content(&sy, &r.3[0], codes, &format!("json_record_content/{n_}"))?;
        }
    }
    // the round-tripped value is a fully working sequence: edit it like the original
    let mut e1 = back.clone();
    let mut e2 = orig.clone();
    if let Some(c) = codes.first() {
        e1.push(sy.sym(*c));
        e2.push(sy.sym(*c));
        e1.rev();
        e2.rev();
    }
    ensure!(e1 == e2, format!("roundtrip_usable/{n_}"), "editing the round-tripped {what} diverges from editing the original");
    let bits = sy.bits();
    let nt = !codes.is_empty() && (!case.s.repr.is_plain() || codes.len() * bits > 64);
    Ok(Pass::new(nt).class(kind).class_if(codes.is_empty(), "empty"))
}

pub fn dispatch(c: &Case) -> PResult {
    with_codec!(c.codec, C, check::<C>(c))
}

#[derive(Clone, Debug, Serialize, Deserialize)]
pub struct RawCase {
    pub codec: CodecId,
    pub words: Vec<u64>,
    pub count: u16,
}

/// sequences rebuilt from arbitrary word images: alternative bit patterns (amino codons, masked gap/pad)
/// and arbitrary bytes in the text codec; the round trip is compared with the original itself
fn raw_check<C: Cm>(case: &RawCase) -> PResult {
    let n_ = C::ID.name();
    let bits = C::ID.bits();
    let raw: Vec<usize> = case.words.iter().map(|w| *w as usize).collect();
    let cap = raw.len() * 64 / bits;
    let count = scale16(case.count, cap);
    let orig = match Seq::<C>::from_raw(count, &raw) {
        Some(s) => s,
        None => fail!("harness", "from_raw({count}, {} words) returned None", raw.len()),
    };
    let what = format!("{count}-symbol {n_} sequence rebuilt from an arbitrary word image");
    let bytes = bincode::serialize(&orig).map_err(|e| Fail { site: format!("raw_bincode_ser/{n_}"), msg: e.to_string() })?;
    let back: Seq<C> = bincode::deserialize(&bytes).map_err(|e| Fail { site: format!("raw_bincode_de/{n_}"), msg: format!("bincode::deserialize of a {what} failed: {e}") })?;
    ensure!(back == orig && orig == back, format!("raw_bincode_eq/{n_}"), "bincode round trip of a {what}: {back} != {orig}");
    check_same_hash(&back, &orig, &format!("raw_bincode_hash/{n_}"), &what)?;
    let text = serde_json::to_string(&orig).map_err(|e| Fail { site: format!("raw_json_ser/{n_}"), msg: e.to_string() })?;
    let jback: Seq<C> = match no_panic(&format!("raw_json_de_panic/{n_}"), "serde_json::from_str", || serde_json::from_str::<Seq<C>>(&text))? {
        Ok(s) => s,
        Err(e) => fail!(format!("raw_json_de/{n_}"), "serde_json::from_str of a serialized {what} failed: {e}"),
    };
    ensure!(jback == orig && orig == jback, format!("raw_json_eq/{n_}"), "JSON round trip of a {what} is not == the original (display {} vs {})", jback, orig);
    ensure_eq!(jback.len(), orig.len(), format!("raw_json_len/{n_}"), "length after JSON round trip");
    ensure_eq!(jback.to_string(), orig.to_string(), format!("raw_json_display/{n_}"), "display after JSON round trip");
    check_same_hash(&jback, &orig, &format!("raw_json_hash/{n_}"), &what)?;
    Ok(Pass::new(count > 0).class("raw_image"))
}

pub fn raw_dispatch(c: &RawCase) -> PResult {
    with_codec!(c.codec, C, raw_check::<C>(c))
}

#[derive(Clone, Debug, Serialize, Deserialize)]
pub struct KCase {
    pub codec: CodecId,
    pub st: St,
    pub k: usize,
    pub codes: Vec<u8>,
}

fn kcheck(c: &KCase) -> PResult {
    let (id, st, k) = (c.codec, c.st, c.k);
    let m = id.model();
    let tag = format!("{}/{}", id.name(), st.name());
    let what = format!("Kmer<{},{k},{}> {}", id.name(), st.name(), m.text(&c.codes));
    let r = no_panic(&format!("kmer_serde_panic/{tag}"), &format!("serde round trip of {what}"), || kcall(id, k, st, &KReq::Serde(c.codes.clone())))?;
    let s = match r {
        Some(Ok(KRes::Serde(s))) => s,
        Some(Err(f)) => return Err(f),
        o => fail!("harness/dispatch", "{what}: {o:?}"),
    };
    ensure_eq!(s.orig.display, m.text(&c.codes), "harness/kmer", "original display");
    for (fmt, back, eq, stable) in [("bincode", &s.bincode, s.bincode_eq, s.bincode_stable), ("json", &s.json, s.json_eq, s.json_stable)] {
        let b = match back {
            Ok(b) => b,
            Err(e) => fail!(format!("kmer_{fmt}_de/{tag}"), "{fmt} deserialize of {what} failed: {e}"),
        };
        ensure!(eq, format!("kmer_{fmt}_eq/{tag}"), "{fmt} round trip of {what} gives {} (not == original)", b.display);
        ensure_eq!(b.display.clone(), s.orig.display.clone(), format!("kmer_{fmt}_display/{tag}"), "{fmt} round trip of {what}: display");
        ensure_eq!(b.bs, s.orig.bs, format!("kmer_{fmt}_bits/{tag}"), "{fmt} round trip of {what}: storage integer");
        ensure!(b.hash == s.orig.hash, format!("kmer_{fmt}_hash/{tag}"), "{fmt} round trip of {what}: hash stream changed");
        let _ = stable;
    }
    Ok(Pass::new(true).class_if(st == St::U128, "u128").class_if(k * m.bits == st.bits(), "full_width").class_if(st == St::U128 && s.orig.bs > u64::MAX as u128, "above_u64"))
}

pub fn run(ctx: &mut Ctx) {
    let max = ctx.pick(200, 1500);
    for id in ALL_CODECS {
        let cases = ctx.cases(1500, 10);
        ctx.forall(&format!("seqs/{}", id.name()), cases, gen::owned_spec_raw(id, max).prop_map(move |s| Case { codec: id, s }), dispatch);
    }
    for id in ALL_CODECS {
        let lens = gen::long_lens_bits(id.bits(), ctx.thorough(), ctx.seed);
        ctx.forall_lens(&format!("seqs_long/{}", id.name()), &lens, |n| gen::owned_spec_n(id, n).prop_map(move |s| Case { codec: id, s }), dispatch);
    }
    for id in ALL_CODECS {
        if !id.model().all_patterns_valid() && id != CodecId::Text {
            continue;
        }
        let cases = ctx.cases(400, 10);
        let st = (proptest::collection::vec(prop_oneof![4 => any::<u64>(), 1 => Just(0u64), 1 => Just(u64::MAX)], 0..=6), any::<u16>()).prop_map(move |(words, count)| RawCase { codec: id, words, count });
        ctx.forall(&format!("raw_images/{}", id.name()), cases, st, raw_dispatch);
    }
    let types = ktypes();
    for id in ALL_CODECS {
        for st in ALL_ST {
            let ks: Vec<usize> = types.iter().filter(|t| t.0 == id && t.1 == st).map(|t| t.2).collect();
            if ks.is_empty() {
                continue;
            }
            let m = id.model();
            let cases = ctx.cases((ks.len() * 30) as u32, 10);
            let s = select(ks).prop_flat_map(move |k| gen::codes_n(m, k).prop_map(move |codes| KCase { codec: id, st, k, codes }));
            ctx.forall(&format!("kmers/{}/{}", id.name(), st.name()), cases, s, kcheck);
        }
    }
    // every k-mer type with all-max content (high bits set)
    let cells: Vec<KCase> = types.iter().map(|(id, st, k)| KCase { codec: *id, st: *st, k: *k, codes: vec![*id.model().codes().iter().max().unwrap(); *k] }).collect();
    ctx.each("all_kmer_types", cells, kcheck);
    for c in ["raw_image", "empty", "offset_owned", "raw_bitvec", "withcap", "edited", "truncated", "rev2", "u128", "full_width", "above_u64"] {
        ctx.require_class(c);
    }
}
