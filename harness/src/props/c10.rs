//! C10 — ordering is colexicographic = numeric order of the packed integer (minimisers).

use crate::codecs::*;
use crate::gen;
use crate::kmers::*;
use crate::model::{self, CodecId, ALL_CODECS};
use crate::obs::*;
use bio_seq::prelude::*;
use proptest::collection::vec;
use proptest::prelude::*;
use proptest::sample::select;
use serde::{Deserialize, Serialize};
use std::cmp::Ordering;

/// codecs whose k-mers implement Ord (the symbol type is Ord)
pub const ORD_CODECS: [CodecId; 5] = [CodecId::Dna, CodecId::Text, CodecId::MDna, CodecId::MIupac, CodecId::Degen];

#[derive(Clone, Debug, Serialize, Deserialize)]
pub struct Pair {
    pub codec: CodecId,
    pub st: St,
    pub k: usize,
    pub a: Vec<u8>,
    pub b: Vec<u8>,
}

fn pair(p: &Pair) -> PResult {
    let (id, st, k) = (p.codec, p.st, p.k);
    let m = id.model();
    let tag = format!("{}/{}", id.name(), st.name());
    let exp = model::colex_cmp(&p.a, &p.b);
    let (ia, ib) = (model::pack_u128(&p.a, m.bits), model::pack_u128(&p.b, m.bits));
    ensure!(ia.cmp(&ib) == exp, "harness/model", "colex and numeric order disagree in the model");
    let what = format!("Kmer<{},{k},{}> {} vs {}", id.name(), st.name(), m.text(&p.a), m.text(&p.b));
    let r = no_panic(&format!("cmp_panic/{tag}"), &what, || kcall_ord(id, k, st, &KReq::Cmp(p.a.clone(), p.b.clone())))?;
    let c = match r {
        Some(Ok(KRes::Cmp(c))) => c,
        Some(Err(f)) => return Err(f),
        other => fail!("harness/dispatch", "{what}: {other:?}"),
    };
    ensure_eq!(c.cmp, exp, format!("cmp/{tag}"), "{what}: Ord::cmp");
    ensure_eq!(c.partial, Some(exp), format!("partial_cmp/{tag}"), "{what}: partial_cmp");
    ensure_eq!((c.lt, c.le, c.gt, c.ge), (exp == Ordering::Less, exp != Ordering::Greater, exp == Ordering::Greater, exp != Ordering::Less), format!("operators/{tag}"), "{what}: (<, <=, >, >=)");
    ensure_eq!((c.eq, c.ne), (exp == Ordering::Equal, exp != Ordering::Equal), format!("eq_consistent/{tag}"), "{what}: (==, !=) must agree with cmp == Equal");
    ensure_eq!(c.min_is_a, exp != Ordering::Greater, format!("min/{tag}"), "{what}: min(a, b) == a");
    ensure_eq!(c.a.bs.cmp(&c.b.bs), exp, format!("numeric/{tag}"), "{what}: order of the storage integers");
    // antisymmetry through the flipped call
    let r = kcall_ord(id, k, st, &KReq::Cmp(p.b.clone(), p.a.clone()));
    match r {
        Some(Ok(KRes::Cmp(f))) => ensure_eq!(f.cmp, exp.reverse(), format!("antisymmetry/{tag}"), "{what}: cmp(b, a)"),
        Some(Err(f)) => return Err(f),
        other => fail!("harness/dispatch", "{what}: {other:?}"),
    }
    let differs = model::lex_cmp(&p.a, &p.b) != exp;
    Ok(Pass::new(differs).class_if(differs, "lex_differs_from_colex").class_if(exp == Ordering::Equal, "equal_pair").class_if(k * m.bits == st.bits(), "full_width"))
}

#[derive(Clone, Debug, Serialize, Deserialize)]
pub struct SortCase {
    pub codec: CodecId,
    pub st: St,
    pub k: usize,
    pub list: Vec<Vec<u8>>,
}

fn colex_sorted(list: &[Vec<u8>]) -> Vec<Vec<u8>> {
    let mut v = list.to_vec();
    v.sort_by(|a, b| model::colex_cmp(a, b));
    v
}

fn sort_case(c: &SortCase) -> PResult {
    let (id, st, k) = (c.codec, c.st, c.k);
    let m = id.model();
    let tag = format!("{}/{}", id.name(), st.name());
    let r = no_panic(&format!("sort_panic/{tag}"), "sorting k-mers", || kcall_ord(id, k, st, &KReq::Sort(c.list.clone())))?;
    let (sorted, mn, mx) = match r {
        Some(Ok(KRes::Sorted(s, mn, mx))) => (s, mn, mx),
        Some(Err(f)) => return Err(f),
        other => fail!("harness/dispatch", "sort: {other:?}"),
    };
    let exp = colex_sorted(&c.list);
    let got: Vec<String> = sorted.iter().map(|i| i.display.clone()).collect();
    let want: Vec<String> = exp.iter().map(|v| m.text(v)).collect();
    ensure_eq!(got, want, format!("sort/{tag}"), "sorted k-mers");
    ensure_eq!(mn.map(|i| i.display), want.first().cloned(), format!("min/{tag}"), "Iterator::min");
    ensure_eq!(mx.map(|i| i.display), want.last().cloned(), format!("max/{tag}"), "Iterator::max");
    let lexs: Vec<String> = {
        let mut v = c.list.clone();
        v.sort();
        v.iter().map(|x| m.text(x)).collect()
    };
    Ok(Pass::new(lexs != want))
}

#[derive(Clone, Debug, Serialize, Deserialize)]
pub struct MinCase {
    pub codec: CodecId,
    pub k: usize,
    pub s: SeqSpec,
}

fn minimiser(c: &MinCase) -> PResult {
    let (id, k) = (c.codec, c.k);
    let m = id.model();
    let tag = id.name();
    let r = no_panic(&format!("minimiser_panic/{tag}"), "min over kmers()", || kcall_minmax(id, k, &c.s))?;
    let (mn, mx, sorted) = match r {
        Some(Ok(x)) => x,
        Some(Err(f)) => return Err(f),
        None => fail!("harness/dispatch", "minmax for {tag} K={k}"),
    };
    let wins: Vec<Vec<u8>> = if c.s.len() >= k { c.s.codes.windows(k).map(|w| w.to_vec()).collect() } else { vec![] };
    let exp = colex_sorted(&wins);
    let want: Vec<String> = exp.iter().map(|v| m.text(v)).collect();
    ensure_eq!(mn.map(|i| i.display), want.first().cloned(), format!("minimiser/{tag}"), "seq.kmers::<{k}>().min() of {}", m.text(&c.s.codes));
    ensure_eq!(mx.map(|i| i.display), want.last().cloned(), format!("maximiser/{tag}"), "seq.kmers::<{k}>().max()");
    ensure_eq!(sorted.iter().map(|i| i.display.clone()).collect::<Vec<_>>(), want, format!("sorted_kmers/{tag}"), "sorted k-mers of the sequence");
    let lexmin = wins.iter().min().map(|v| m.text(v));
    Ok(Pass::new(wins.len() >= 2 && lexmin != want.first().cloned()).class_if(c.s.bit_offset(m.bits) != 0, "offset"))
}

#[derive(Clone, Debug, Serialize, Deserialize)]
pub struct SeqTriple {
    pub codec: CodecId,
    pub a: SeqSpec,
    pub b: SeqSpec,
    pub c: SeqSpec,
}

fn seqs<C: Cm>(t: &SeqTriple) -> PResult {
    let sy = Syms::<C>::new()?;
    let n = C::ID.name();
    let a: Seq<C> = build(&sy, &t.a)?.into_seq();
    let b: Seq<C> = build(&sy, &t.b)?.into_seq();
    let c: Seq<C> = build(&sy, &t.c)?.into_seq();
    let cmp = |x: &Seq<C>, y: &Seq<C>, what: &str| no_panic(&format!("seq_cmp_panic/{n}"), what, || x.cmp(y));
    let ab = cmp(&a, &b, "a.cmp(b)")?;
    let ba = cmp(&b, &a, "b.cmp(a)")?;
    let bc = cmp(&b, &c, "b.cmp(c)")?;
    let ac = cmp(&a, &c, "a.cmp(c)")?;
    let (ca, cb, cc) = (&t.a.codes, &t.b.codes, &t.c.codes);
    let what = format!("a={} ({}), b={} ({})", sy.text(ca), t.a.repr.kind(), sy.text(cb), t.b.repr.kind());
    // equal lengths: exactly the k-mer order (colexicographic)
    let mut nt = false;
    for (x, y, got, label) in [(ca, cb, ab, "a,b"), (cb, cc, bc, "b,c"), (ca, cc, ac, "a,c")] {
        if x.len() == y.len() {
            let exp = model::colex_cmp(x, y);
            ensure_eq!(got, exp, format!("seq_colex/{n}"), "Seq order of ({label}) with {what}, c={}", sy.text(cc));
            nt |= model::lex_cmp(x, y) != exp;
        }
    }
    // order axioms for every pair (any lengths)
    ensure_eq!(ba, ab.reverse(), format!("seq_antisymmetry/{n}"), "b.cmp(a) vs a.cmp(b) with {what}");
    ensure_eq!(ab == Ordering::Equal, a == b, format!("seq_eq_consistent/{n}"), "cmp == Equal must agree with == ({what})");
    ensure_eq!(ab == Ordering::Equal, ca == cb, format!("seq_eq_content/{n}"), "cmp == Equal must mean same content ({what})");
    ensure_eq!(a.partial_cmp(&b), Some(ab), format!("seq_partial/{n}"), "partial_cmp ({what})");
    ensure_eq!((a < b, a <= b, a > b, a >= b), (ab == Ordering::Less, ab != Ordering::Greater, ab == Ordering::Greater, ab != Ordering::Less), format!("seq_operators/{n}"), "operators ({what})");
    if ab != Ordering::Greater && bc != Ordering::Greater {
        ensure!(ac != Ordering::Greater, format!("seq_transitive/{n}"), "a <= b <= c but a > c: {what}, c={}", sy.text(cc));
    }
    if ab != Ordering::Less && bc != Ordering::Less {
        ensure!(ac != Ordering::Less, format!("seq_transitive/{n}"), "a >= b >= c but a < c: {what}, c={}", sy.text(cc));
    }
    // sorting a Vec<Seq> of equal lengths = colex sort
    if ca.len() == cb.len() && cb.len() == cc.len() {
        let mut v = vec![a.clone(), b.clone(), c.clone()];
        v.sort();
        let got: Vec<String> = v.iter().map(|s| s.to_string()).collect();
        let want: Vec<String> = colex_sorted(&[ca.clone(), cb.clone(), cc.clone()]).iter().map(|x| sy.text(x)).collect();
        ensure_eq!(got, want, format!("seq_sort/{n}"), "sorting three equal-length sequences");
    }
    let stale = |s: &SeqSpec| matches!(s.repr, Repr::Truncated { .. } | Repr::Edited { .. } | Repr::OffsetOwned { .. } | Repr::RemovedPrefix { .. } | Repr::ToRev2 { .. } | Repr::Refilled { .. } | Repr::TruncExtend { .. });
    Ok(Pass::new(nt).class_if(ca.len() == cb.len(), "equal_length").class_if(ca.len() != cb.len(), "unequal_length").class_if(stale(&t.a) || stale(&t.b), "edited_or_offset_born"))
}

/// long equal-length owned sequences that differ in exactly one symbol, for every position on or
/// next to a power-of-two block boundary: the order is decided by that symbol alone
fn seq_boundaries<C: Cm>(s: &SeqSpec) -> PResult {
    let sy = Syms::<C>::new()?;
    let n = C::ID.name();
    let a: Seq<C> = build(&sy, s)?.into_seq();
    let codes = sy.m.codes();
    let len = s.codes.len();
    let mut tried = 0;
    for p in gen::boundary_positions(len, sy.bits()) {
        let old = s.codes[p];
        let i = codes.iter().position(|c| *c == old).unwrap_or(0);
        // a neighbouring code above and one below (where they exist): both directions of the order
        for new in [codes.get(i + 1).copied(), i.checked_sub(1).map(|j| codes[j])].into_iter().flatten() {
            let b = gen::with_symbol(&a, p, sy.sym(new));
            let exp = old.cmp(&new);
            let got = no_panic(&format!("seq_cmp_panic/{n}"), "a.cmp(b)", || a.cmp(&b))?;
            ensure_eq!(got, exp, format!("seq_boundary_cmp/{n}"), "order of two {len}-symbol sequences that differ only at symbol {p} ({} vs {})", sy.m.ch(old) as char, sy.m.ch(new) as char);
            let rev = no_panic(&format!("seq_cmp_panic/{n}"), "b.cmp(a)", || b.cmp(&a))?;
            ensure_eq!(rev, exp.reverse(), format!("seq_boundary_cmp/{n}"), "reverse order of two {len}-symbol sequences that differ only at symbol {p}");
            tried += 1;
        }
    }
    Ok(Pass::new(tried > 0))
}

fn seq_boundaries_dispatch(t: &SeqTriple) -> PResult {
    with_codec!(t.codec, C, seq_boundaries::<C>(&t.a))
}

pub fn seq_dispatch(t: &SeqTriple) -> PResult {
    with_codec!(t.codec, C, seqs::<C>(t))
}

/// a partner sharing a long suffix or prefix, or one symbol changed, or independent
fn related(m: &'static crate::model::Model, a: Vec<u8>) -> BoxedStrategy<Vec<u8>> {
    let n = a.len();
    if n == 0 {
        return Just(a).boxed();
    }
    prop_oneof![
        2 => gen::codes_n(m, n),
        3 => (any::<u16>(), gen::code(m)).prop_map({ let a = a.clone(); move |(p, c)| { let mut b = a.clone(); let at = scale16(p, n - 1); b[at] = c; b } }),
        2 => (any::<u16>(), gen::codes_n(m, n)).prop_map({ let a = a.clone(); move |(p, r)| { let cut = scale16(p, n); let mut b = r; b[cut..].copy_from_slice(&a[cut..]); b } }),
        2 => (any::<u16>(), gen::codes_n(m, n)).prop_map({ let a = a.clone(); move |(p, r)| { let cut = scale16(p, n); let mut b = r; b[..cut].copy_from_slice(&a[..cut]); b } }),
        1 => Just(a.clone()),
        1 => Just({ let mut b = a.clone(); b.reverse(); b }),
    ]
    .boxed()
}

fn pair_strat(id: CodecId, st: St, ks: Vec<usize>) -> BoxedStrategy<Pair> {
    let m = id.model();
    select(ks)
        .prop_flat_map(move |k| gen::codes_n(m, k).prop_flat_map(move |a| (Just(a.clone()), related(m, a))).prop_map(move |(a, b)| (k, a, b)))
        .prop_map(move |(k, a, b)| Pair { codec: id, st, k, a, b })
        .boxed()
}

fn seq_strat(id: CodecId, max: usize) -> BoxedStrategy<SeqTriple> {
    let m = id.model();
    (gen::owned_spec(id, max), gen::owned_repr(m), gen::owned_repr(m), 0..10u8, gen::codes(m, 30))
        .prop_flat_map(move |(a, rb, rc, mode, other)| {
            let ca = a.codes.clone();
            // mostly equal lengths (where the documented order applies), sometimes different ones
            let b = if mode == 0 { Just(other.clone()).boxed() } else { related(m, ca.clone()) };
            let c = if mode == 1 { Just(other).boxed() } else { related(m, ca) };
            (Just(a), b, Just(rb), c, Just(rc))
        })
        .prop_map(move |(a, b, rb, c, rc)| SeqTriple { codec: id, a, b: SeqSpec { codes: b, repr: rb }, c: SeqSpec { codes: c, repr: rc } })
        .boxed()
}

fn readme(_: &u8) -> PResult {
    // README: AAAA < CAAA < GAAA < ... < AAAC < ... < TTTT, and the minimiser example
    use std::str::FromStr;
    let order = ["AAAA", "CAAA", "GAAA", "TAAA", "ACAA", "AAAC", "CAAC", "TTTG", "AAAT", "TTTT"];
    for w in order.windows(2) {
        let (a, b) = (Kmer::<DnaC, 4>::from_str(w[0]).unwrap(), Kmer::<DnaC, 4>::from_str(w[1]).unwrap());
        ensure!(a < b, "readme/kmer_order", "README order: {} < {} does not hold for k-mers", w[0], w[1]);
        let (sa, sb) = (Seq::<DnaC>::from_str(w[0]).unwrap(), Seq::<DnaC>::from_str(w[1]).unwrap());
        ensure!(sa < sb, "readme/seq_order", "README order: {} < {} does not hold for sequences", w[0], w[1]);
    }
    let seq = dna!("GCTCGATCGTAAAAAATCGTATT");
    let minimiser = seq.kmers::<8>().min().unwrap();
    ensure!(minimiser.to_string() == "GTAAAAAA", "readme/minimiser", "README minimiser is {minimiser}");
    Ok(Pass::new(true))
}

pub fn run(ctx: &mut Ctx) {
    let types = ktypes();
    for id in ORD_CODECS {
        for st in ALL_ST {
            let ks: Vec<usize> = types.iter().filter(|t| t.0 == id && t.1 == st).map(|t| t.2).collect();
            if ks.is_empty() {
                continue;
            }
            let cases = ctx.cases((ks.len() * 80) as u32, 10);
            ctx.forall(&format!("pairs/{}/{}", id.name(), st.name()), cases, pair_strat(id, st, ks.clone()), pair);
            let m = id.model();
            let sorts = select(ks).prop_flat_map(move |k| vec(gen::codes_n(m, k), 0..12).prop_map(move |list| SortCase { codec: id, st, k, list }));
            let cases = ctx.cases(150, 20);
            ctx.forall(&format!("sort/{}/{}", id.name(), st.name()), cases, sorts, sort_case);
        }
        // minimisers over kmers::<K>() (usize)
        let ks: Vec<usize> = (1..=64).filter(|k| kcall_minmax(id, *k, &SeqSpec::plain(vec![])).is_some()).collect();
        if ks.is_empty() {
            // a build without the k-mer tables
            continue;
        }
        let mins = (select(ks), gen::seq_spec(id, 90)).prop_map(move |(k, s)| MinCase { codec: id, k, s });
        let cases = ctx.cases(600, 20);
        ctx.forall(&format!("minimiser/{}", id.name()), cases, mins, minimiser);
    }
    // exhaustive pairs for the small types
    let mut cells = vec![];
    for (id, st, k) in &types {
        let m = id.model();
        if !ORD_CODECS.contains(id) || k * m.bits > 6 || m.nsyms().pow(*k as u32) > 70 {
            continue;
        }
        let ns = m.nsyms();
        let all: Vec<Vec<u8>> = (0..ns.pow(*k as u32))
            .map(|mut x| {
                let mut v = vec![];
                for _ in 0..*k {
                    v.push(m.codes()[x % ns]);
                    x /= ns;
                }
                v
            })
            .collect();
        for a in &all {
            for b in &all {
                cells.push(Pair { codec: *id, st: *st, k: *k, a: a.clone(), b: b.clone() });
            }
        }
    }
    ctx.each("all_small_pairs", cells, pair);
    // every Ord type at least once with boundary patterns
    let mut cells = vec![];
    for (id, st, k) in &types {
        if !ORD_CODECS.contains(id) {
            continue;
        }
        let m = id.model();
        let lo = *m.codes().iter().min().unwrap();
        let hi = *m.codes().iter().max().unwrap();
        let mut first_hi = vec![lo; *k];
        first_hi[0] = hi;
        let mut last_hi = vec![lo; *k];
        last_hi[k - 1] = hi;
        cells.push(Pair { codec: *id, st: *st, k: *k, a: first_hi.clone(), b: last_hi.clone() });
        cells.push(Pair { codec: *id, st: *st, k: *k, a: vec![hi; *k], b: last_hi });
        cells.push(Pair { codec: *id, st: *st, k: *k, a: vec![hi; *k], b: vec![hi; *k] });
    }
    ctx.each("all_types_boundary", cells, pair);
    // owned sequences, all seven codecs
    let max = ctx.pick(100, 600);
    for id in ALL_CODECS {
        let cases = ctx.cases(2500, 20);
        ctx.forall(&format!("seqs/{}", id.name()), cases, seq_strat(id, max), seq_dispatch);
    }
    for id in ALL_CODECS {
        let m = id.model();
        let lens = gen::long_lens_bits(id.bits(), ctx.thorough(), ctx.seed);
        ctx.forall_lens(
            &format!("seqs_long/{}", id.name()),
            &lens,
            |n| {
                (gen::owned_spec_n(id, n), gen::owned_repr(m), gen::owned_repr(m))
                    .prop_flat_map(move |(a, rb, rc)| {
                        let ca = a.codes.clone();
                        (Just(a), related(m, ca.clone()), Just(rb), related(m, ca), Just(rc))
                    })
                    .prop_map(move |(a, b, rb, c, rc)| SeqTriple { codec: id, a, b: SeqSpec { codes: b, repr: rb }, c: SeqSpec { codes: c, repr: rc } })
            },
            seq_dispatch,
        );
        // single substitutions on and next to power-of-two block boundaries (the four longest lengths)
        let mut big: Vec<usize> = lens.iter().copied().filter(|n| n * id.bits() >= 4096).collect();
        big.sort();
        let big: Vec<usize> = big.into_iter().rev().take(4).collect();
        ctx.forall_lens(
            &format!("seqs_long_boundaries/{}", id.name()),
            &big,
            |n| gen::owned_spec_n(id, n).prop_map(move |a| SeqTriple { codec: id, b: SeqSpec::plain(vec![]), c: SeqSpec::plain(vec![]), a }),
            seq_boundaries_dispatch,
        );
    }
    ctx.each("readme", vec![0u8], readme);
    ctx.require_class("lex_differs_from_colex");
    ctx.require_class("equal_pair");
    ctx.require_class("full_width");
    ctx.require_class("equal_length");
    ctx.require_class("unequal_length");
    ctx.require_class("edited_or_offset_born");
}
