//! C11 — symbol, reverse, window and chunk iterators enumerate exactly the right items.

use crate::codecs::*;
use crate::gen;
use crate::model::{CodecId, ALL_CODECS};
use crate::obs::*;
use crate::oracle::check_iter_laws;
use bio_seq::prelude::*;
use proptest::collection::vec;
use proptest::prelude::*;
use serde::{Deserialize, Serialize};

#[derive(Clone, Debug, Serialize, Deserialize)]
pub struct Case {
    pub codec: CodecId,
    pub s: SeqSpec,
    pub second: SeqSpec,
    /// extra widths (scaled into 1..=n+2); boundary widths are always checked
    pub widths: Vec<u16>,
}

fn widths_for(case: &Case, bits: usize) -> Vec<usize> {
    let n = case.s.len();
    let mut w: Vec<usize> = vec![];
    if n <= 24 {
        w.extend(1..=n + 2);
    } else {
        w.extend([1, 2, 3, 5, n - 1, n, n + 1, n + 2, n / 2, n / 2 + 1, n / 3]);
        let per = 64 / bits;
        w.extend([per.max(1), per + 1, (per.max(2)) - 1, 2 * per, 2 * per + 1]);
        for x in &case.widths {
            w.push(1 + scale16(*x, n + 1));
        }
    }
    w.retain(|x| *x >= 1 && *x <= n + 2);
    if n > 1500 {
        // long sequences: only widths whose windows can be compared within a bounded amount of work
        w.retain(|x| (n.saturating_sub(*x) + 1) * *x <= 3_000_000 || *x + 3 >= n);
        w.extend([1, 2, 63, 64, 65, 1024, 4096, 4097].iter().copied().filter(|x| *x <= n));
    }
    w.sort();
    w.dedup();
    w
}

fn drain<T>(it: &mut dyn Iterator<Item = T>, expected: usize) -> (Vec<T>, bool) {
    let mut out = vec![];
    for _ in 0..expected + 2 {
        match it.next() {
            Some(x) => out.push(x),
            None => break,
        }
    }
    // a finished iterator stays finished
    let done = it.next().is_none() && it.next().is_none();
    (out, done)
}

fn check<C: Cm>(case: &Case) -> PResult {
    let sy = Syms::<C>::new()?;
    let n_ = C::ID.name();
    let bits = sy.bits();
    let codes = &case.s.codes;
    let n = codes.len();
    let built = build(&sy, &case.s)?;
    let sl = built.slice();

    // forward / reverse symbol iteration
    let (fwd, done) = no_panic(&format!("iter_panic/{n_}"), "iter()", || {
        let mut it = sl.iter();
        let (v, d) = drain(&mut it, n);
        (v.iter().map(|x| x.to_bits()).collect::<Vec<u8>>(), d)
    })?;
    ensure_eq!(fwd, codes.clone(), format!("iter/{n_}"), "iter()");
    ensure!(done, format!("iter_terminates/{n_}"), "iter() yields more than {n} items or resumes after None");
    let (fwd2, done2) = no_panic(&format!("iter_panic/{n_}"), "(&slice).into_iter()", || {
        let mut it = sl.into_iter();
        let (v, d) = drain(&mut it, n);
        (v.iter().map(|x| x.to_bits()).collect::<Vec<u8>>(), d)
    })?;
    ensure_eq!(fwd2, codes.clone(), format!("into_iter/{n_}"), "(&SeqSlice).into_iter()");
    ensure!(done2, format!("iter_terminates/{n_}"), "into_iter() does not terminate properly");
    if let Some(o) = built.owned() {
        let v: Vec<u8> = no_panic(&format!("iter_panic/{n_}"), "(&Seq).into_iter()", || o.into_iter().take(n + 2).map(|x| x.to_bits()).collect())?;
        ensure_eq!(v, codes.clone(), format!("into_iter_seq/{n_}"), "(&Seq).into_iter()");
        let mut cnt = 0;
        for _x in o {
            cnt += 1;
            if cnt > n + 2 {
                break;
            }
        }
        ensure_eq!(cnt, n, format!("into_iter_seq/{n_}"), "for _ in &seq count");
    }
    let (bwd, doneb) = no_panic(&format!("rev_iter_panic/{n_}"), "rev_iter()", || {
        let mut it = sl.rev_iter();
        let (v, d) = drain(&mut it, n);
        (v.iter().map(|x| x.to_bits()).collect::<Vec<u8>>(), d)
    })?;
    let exp_rev: Vec<u8> = codes.iter().rev().copied().collect();
    ensure_eq!(bwd, exp_rev, format!("rev_iter/{n_}"), "rev_iter()");
    ensure!(doneb, format!("iter_terminates/{n_}"), "rev_iter() does not terminate properly");

    // chain
    let b2 = build(&sy, &case.second)?;
    let s2 = b2.slice();
    let exp_chain: Vec<u8> = codes.iter().chain(case.second.codes.iter()).copied().collect();
    let (ch, donec) = no_panic(&format!("chain_panic/{n_}"), "chain()", || {
        let mut it = sl.chain(s2);
        let (v, d) = drain(&mut it, exp_chain.len());
        (v.iter().map(|x| x.to_bits()).collect::<Vec<u8>>(), d)
    })?;
    ensure_eq!(ch, exp_chain, format!("chain/{n_}"), "chain()");
    ensure!(donec, format!("iter_terminates/{n_}"), "chain() does not terminate properly");

    // chaining a slice with itself / with an overlapping window of the same storage
    let twice: Vec<u8> = codes.iter().chain(codes.iter()).copied().collect();
    let got: Vec<u8> = no_panic(&format!("chain_panic/{n_}"), "s.chain(s)", || sl.chain(sl).take(2 * n + 2).map(|x| x.to_bits()).collect())?;
    ensure_eq!(got, twice, format!("chain_self/{n_}"), "s.chain(s)");
    if n >= 2 {
        let (l, r) = (&sl[..n - 1], &sl[1..]);
        let exp: Vec<u8> = codes[..n - 1].iter().chain(codes[1..].iter()).copied().collect();
        let got: Vec<u8> = l.chain(r).take(2 * n + 2).map(|x| x.to_bits()).collect();
        ensure_eq!(got, exp, format!("chain_overlap/{n_}"), "s[..n-1].chain(&s[1..])");
    }
    // every other way of consuming the iterators agrees with next()
    check_iter_laws(&|| sl.iter(), &|x: C| x.to_bits(), codes, &format!("iter_laws/{n_}"), &case.widths)?;
    check_iter_laws(&|| sl.into_iter(), &|x: C| x.to_bits(), codes, &format!("into_iter_laws/{n_}"), &case.widths)?;
    check_iter_laws(&|| sl.rev_iter(), &|x: C| x.to_bits(), &exp_rev, &format!("rev_iter_laws/{n_}"), &case.widths)?;
    check_iter_laws(&|| sl.chain(s2), &|x: C| x.to_bits(), &exp_chain, &format!("chain_laws/{n_}"), &case.widths)?;
    if let Some(o) = built.owned() {
        check_iter_laws(&|| o.into_iter(), &|x: C| x.to_bits(), codes, &format!("into_iter_seq_laws/{n_}"), &case.widths)?;
    }

    // windows and chunks
    let off = case.s.repr.pre_len() * bits;
    let mut nt = false;
    let mut straddle_item = false;
    for w in widths_for(case, bits) {
        // which items get their symbols compared: all of them unless that is too much work
        let pick = |count: usize| -> Vec<usize> {
            if count * w <= 3_000_000 {
                (0..count).collect()
            } else {
                let mut v: Vec<usize> = vec![0, 1, 2, count / 2, count.saturating_sub(3), count.saturating_sub(2), count - 1];
                for x in &case.widths {
                    v.push(scale16(*x, count - 1));
                }
                v.retain(|i| *i < count);
                v.sort();
                v.dedup();
                v
            }
        };
        let nwin = if w <= n { n - w + 1 } else { 0 };
        let (got, donew) = no_panic(&format!("windows_panic/{n_}"), &format!("windows({w}) on length {n}"), || {
            let mut it = sl.windows(w);
            drain(&mut it, nwin)
        })?;
        ensure_eq!(got.len(), nwin, format!("windows_count/{n_}"), "number of windows({w}) of a length-{n} sequence");
        ensure!(donew, format!("iter_terminates/{n_}"), "windows({w}) does not terminate properly on length {n}");
        for (i, x) in got.iter().enumerate() {
            ensure_eq!(x.len(), w, format!("windows_item_len/{n_}"), "length of window {i} of windows({w})");
        }
        for i in pick(nwin) {
            ensure_eq!(&codes_of(got[i])[..], &codes[i..i + w], format!("windows_item/{n_}"), "window {i} of windows({w}) on length {n}");
        }
        let nch = n / w;
        let (gotc, donech) = no_panic(&format!("chunks_panic/{n_}"), &format!("chunks({w}) on length {n}"), || {
            let mut it = sl.chunks(w);
            drain(&mut it, nch)
        })?;
        ensure_eq!(gotc.len(), nch, format!("chunks_count/{n_}"), "number of chunks({w}) of a length-{n} sequence");
        ensure!(donech, format!("iter_terminates/{n_}"), "chunks({w}) does not terminate properly on length {n}");
        for (i, x) in gotc.iter().enumerate() {
            ensure_eq!(x.len(), w, format!("chunks_item_len/{n_}"), "length of chunk {i} of chunks({w})");
            ensure_eq!(&codes_of(x)[..], &codes[i * w..(i + 1) * w], format!("chunks_item/{n_}"), "chunk {i} of chunks({w}) on length {n}");
        }
        // the other consumption forms (nth, skip, step_by, count, last, size_hint) on two widths per case
        let law_widths = [1 + case.widths.first().copied().unwrap_or(2) as usize % (n + 1), 1 + case.widths.get(1).copied().unwrap_or(0) as usize % 7];
        if nwin * w <= 6000 && law_widths.contains(&w) {
            let expv: Vec<Vec<u8>> = codes.windows(w).map(|x| x.to_vec()).collect();
            check_iter_laws(&|| sl.windows(w), &|x: &SeqSlice<C>| codes_of(x), &expv, &format!("windows_laws/{n_}"), &case.widths)?;
            let expc: Vec<Vec<u8>> = codes.chunks_exact(w).map(|x| x.to_vec()).collect();
            check_iter_laws(&|| sl.chunks(w), &|x: &SeqSlice<C>| codes_of(x), &expc, &format!("chunks_laws/{n_}"), &case.widths)?;
        }
        if w >= 2 && n >= w + 1 {
            let item_straddles = (0..=n - w).any(|i| {
                let s = off + i * bits;
                s / 64 != (s + w * bits - 1) / 64
            });
            if off % 64 != 0 || item_straddles {
                nt = true;
            }
            straddle_item |= item_straddles;
        }
    }
    // widths far beyond the sequence (w > n: no item), where scaling the width by the symbol size wraps
    for w in [usize::MAX, usize::MAX - 1, usize::MAX / 2 + 1, (1usize << 63) + 1, (1usize << 61) + 3, (usize::MAX / bits).saturating_add(1), usize::MAX / bits, usize::MAX / bits - 1] {
        if w <= n {
            continue;
        }
        let (first, second, count) = no_panic(&format!("windows_far_width_panic/{n_}"), &format!("windows({w}) on length {n}"), || {
            let mut it = sl.windows(w);
            let a = it.next().map(|x| x.len());
            let b = it.next().map(|x| x.len());
            (a, b, sl.windows(w).take(3).count())
        })?;
        ensure!(first.is_none() && second.is_none() && count == 0, format!("windows_far_width/{n_}"), "windows({w}) of a length-{n} sequence yields items: {first:?} {second:?} count {count}");
        let (first, second, count) = no_panic(&format!("chunks_far_width_panic/{n_}"), &format!("chunks({w}) on length {n}"), || {
            let mut it = sl.chunks(w);
            let a = it.next().map(|x| x.len());
            let b = it.next().map(|x| x.len());
            (a, b, sl.chunks(w).take(3).count())
        })?;
        ensure!(first.is_none() && second.is_none() && count == 0, format!("chunks_far_width/{n_}"), "chunks({w}) of a length-{n} sequence yields items: {first:?} {second:?} count {count}");
    }
    // Vec<Seq>::from_iter over windows / chunks (one width)
    if n >= 1 {
        let w = 1 + (case.widths.first().copied().unwrap_or(0) as usize) % n.min(7);
        let v: Vec<Seq<C>> = no_panic(&format!("collect_windows_panic/{n_}"), "collecting windows into Vec<Seq>", || sl.windows(w).take(n + 2).collect())?;
        let exp: Vec<&[u8]> = codes.windows(w).collect();
        ensure_eq!(v.len(), exp.len(), format!("collect_windows/{n_}"), "Vec<Seq>::from_iter(windows({w})) length");
        for (i, s) in v.iter().enumerate() {
            ensure_eq!(&codes_of(s)[..], exp[i], format!("collect_windows/{n_}"), "owned window {i}");
        }
        let v: Vec<Seq<C>> = sl.chunks(w).take(n + 2).collect();
        let exp: Vec<&[u8]> = codes.chunks_exact(w).collect();
        ensure_eq!(v.len(), exp.len(), format!("collect_chunks/{n_}"), "Vec<Seq>::from_iter(chunks({w})) length");
        for (i, s) in v.iter().enumerate() {
            ensure_eq!(&codes_of(s)[..], exp[i], format!("collect_chunks/{n_}"), "owned chunk {i}");
        }
    }
    Ok(Pass::new(nt).class_if(straddle_item, "item_straddles_word").class_if(off % 64 != 0, "offset").class_if(n == 0, "empty"))
}

pub fn dispatch(case: &Case) -> PResult {
    with_codec!(case.codec, C, check::<C>(case))
}

fn strat(id: CodecId, max: usize) -> BoxedStrategy<Case> {
    (gen::seq_spec(id, max), gen::seq_spec(id, 20), vec(any::<u16>(), 0..4)).prop_map(move |(s, second, widths)| Case { codec: id, s, second, widths }).boxed()
}

pub fn run(ctx: &mut Ctx) {
    let max = ctx.pick(120, 600);
    for id in ALL_CODECS {
        let cases = ctx.cases(900, 12);
        ctx.forall(&format!("iters/{}", id.name()), cases, strat(id, max), dispatch);
    }
    // long sequences (thresholds of fast paths, many words)
    for id in ALL_CODECS {
        let lens = gen::long_lens(ctx.thorough(), ctx.seed);
        ctx.forall_lens(&format!("iters_long/{}", id.name()), &lens, |n| (gen::seq_spec_n(id, n), gen::seq_spec(id, 20), vec(any::<u16>(), 0..4)).prop_map(move |(s, second, widths)| Case { codec: id, s, second, widths }), dispatch);
    }
    // bounded-exhaustive: every window (offset, length <= 24 so all widths are walked) of a fixed parent
    for id in ALL_CODECS {
        let m = id.model();
        let per = 64 / m.bits + 2;
        let parent: Vec<u8> = (0..(per + 30)).map(|i| m.codes()[(i * 3 + i / 5 + 2) % m.nsyms()]).collect();
        let mut cases = vec![];
        for pre in 0..=per {
            for len in 0..=24usize.min(parent.len() - pre) {
                let s = SeqSpec { codes: parent[pre..pre + len].to_vec(), repr: Repr::Slice { pre: parent[..pre].to_vec(), post: parent[pre + len..].to_vec() } };
                cases.push(Case { codec: id, s, second: SeqSpec::plain(parent[..3].to_vec()), widths: vec![] });
            }
        }
        ctx.each(&format!("all_widths/{}", id.name()), cases, dispatch);
    }
    ctx.require_class("item_straddles_word");
    ctx.require_class("offset");
    ctx.require_class("empty");
}
