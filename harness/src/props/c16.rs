//! C16 (harness part) — the static literals compiled into the harness equal runtime parsing.
//! The program-generation tiers live in lib/programs.py and derive-direct.

use crate::codecs::*;
use crate::model::CodecId;
use crate::obs::*;
use crate::oracle::*;
use bio_seq::prelude::*;

fn pool<C: Cm>(i: &usize) -> PResult {
    let sy = Syms::<C>::new()?;
    let n = C::ID.name();
    let pool = C::pool();
    let (text, lit) = pool[*i];
    let codes = sy.m.parse(text.as_bytes()).map_err(|b| Fail { site: "harness".into(), msg: format!("pool text has bad byte {b}") })?;
    check_content(&sy, lit, &codes, &format!("pool_literal/{n}"))?;
    let parsed = Seq::<C>::try_from(text).map_err(|e| Fail { site: format!("pool_parse/{n}"), msg: format!("{e:?}") })?;
    ensure!(*lit == parsed && parsed == *lit && parsed == lit, format!("pool_eq/{n}"), "literal {text:?} != runtime parse");
    check_same_hash(lit, &parsed, &format!("pool_hash/{n}"), &format!("literal {text:?} vs runtime parse"))?;
    let owned = lit.to_owned();
    check_image(&owned, &codes, &format!("pool_image/{n}"))?;
    Ok(Pass::new(codes.len() * sy.bits() > 64).class_if(codes.is_empty(), "empty_literal"))
}

pub fn run(ctx: &mut Ctx) {
    ctx.each("compiled_pool/dna", (0..pool_len(CodecId::Dna)).collect::<Vec<usize>>(), pool::<DnaC>);
    ctx.each("compiled_pool/iupac", (0..pool_len(CodecId::Iupac)).collect::<Vec<usize>>(), pool::<IupacC>);
    ctx.require_class("empty_literal");
}
