//! C04 — documented little-endian packing: symbol i lives at bits [i*BITS, (i+1)*BITS).

use crate::codecs::*;
use crate::gen;
use crate::kmers::*;
use crate::model::{self, CodecId, ALL_CODECS};
use crate::obs::*;
use crate::oracle::*;
use bio_seq::prelude::*;
use proptest::collection::vec;
use proptest::prelude::*;
use proptest::sample::select;
use serde::{Deserialize, Serialize};

#[derive(Clone, Debug, Serialize, Deserialize)]
pub struct IntCase {
    pub codec: CodecId,
    pub s: SeqSpec,
}

fn ints<C: Cm>(case: &IntCase) -> PResult {
    let sy = Syms::<C>::new()?;
    let n_ = C::ID.name();
    let bits = sy.bits();
    let codes = &case.s.codes;
    let n = codes.len();
    ensure!(n >= 1, "harness", "empty sequences are outside the property's domain");
    let b = build(&sy, &case.s)?;
    let sl = b.slice();
    let total = n * bits;
    let what = format!("{} ({} symbols, {})", sy.text(codes), n, case.s.repr.kind());
    let r = no_panic(&format!("try_from_slice_panic/{n_}"), &format!("usize::try_from(&slice) of {what}"), || usize::try_from(sl))?;
    if total <= 64 {
        let exp = model::pack_u128(codes, bits) as usize;
        match r {
            Ok(v) => ensure_eq!(v, exp, format!("usize_try_from/{n_}"), "usize::try_from(&slice) of {what}"),
            Err(e) => fail!(format!("usize_try_from_refused/{n_}"), "usize::try_from(&slice) of {what} ({total} bits) failed: {e:?}"),
        }
        let owned = sl.to_owned();
        let v = no_panic(&format!("usize_from_seq_panic/{n_}"), &format!("usize::from(Seq) of {what}"), || usize::from(owned))?;
        ensure_eq!(v, exp, format!("usize_from_seq/{n_}"), "usize::from(Seq) of {what}");
        if let Some(o) = b.owned() {
            // the owned value in its generated provenance
            let v = no_panic(&format!("usize_from_seq_panic/{n_}"), &format!("usize::from(Seq) of {what}"), || usize::from(o.clone()))?;
            ensure_eq!(v, exp, format!("usize_from_seq_prov/{n_}"), "usize::from(Seq) of {what}");
        }
        // the k-mer obtained from the owned sequence (by value) carries the same integer
        if let Some(r) = no_panic(&format!("kmer_try_from_seq_panic/{n_}"), &format!("Kmer::try_from(Seq) of {what}"), || kcall_usize(C::ID, n, &UReq::TryFromSeq(case.s.clone())))? {
            match r? {
                URes::Built(Ok(k)) => ensure_eq!(k.bs, exp as u128, format!("kmer_try_from_seq/{n_}"), "integer of Kmer::try_from(Seq) of {what}"),
                URes::Built(Err(e)) => fail!(format!("kmer_try_from_seq_refused/{n_}"), "Kmer::<_, {n}>::try_from(Seq) of {what} failed: {e:?}"),
                other => fail!("harness/kmer_dispatch", "unexpected dispatch result {other:?}"),
            }
        }
        if total <= 8 {
            let v = no_panic(&format!("u8_from_slice_panic/{n_}"), &format!("u8::from(&slice) of {what}"), || u8::from(sl))?;
            ensure_eq!(v as usize, exp, format!("u8_from_slice/{n_}"), "u8::from(&slice) of {what}");
        }
    } else {
        match r {
            Err(ParseBioError::SequenceTooLong(..)) => {}
            Err(e) => fail!(format!("too_long_wrong_error/{n_}"), "usize::try_from(&slice) of {what} ({total} bits): expected SequenceTooLong, got {e:?}"),
            Ok(v) => fail!(format!("too_long_truncated/{n_}"), "usize::try_from(&slice) of {what} ({total} bits) returned {v:#x} instead of an error"),
        }
        // the infallible owned conversion may only panic, never return a truncated value
        let owned = sl.to_owned();
        if let Ok(v) = quiet_catch(|| usize::from(owned)) {
            fail!(format!("too_long_from_seq_returned/{n_}"), "usize::from(Seq) of {what} ({total} bits) returned {v:#x}");
        }
    }
    let off = case.s.bit_offset(bits);
    Ok(Pass::new(off != 0 || total == 64).class_if(total > 64, "too_long").class_if(total == 64, "exactly_one_word").class_if(off != 0, "offset").class_if(off + total > 64 && off != 0 && total <= 64, "straddles_words"))
}

pub fn int_dispatch(c: &IntCase) -> PResult {
    with_codec!(c.codec, C, ints::<C>(c))
}

#[derive(Clone, Debug, Serialize, Deserialize)]
pub struct KCase {
    pub codec: CodecId,
    pub st: St,
    pub k: usize,
    /// value below 2^(K*BITS), as (high, low) 64-bit halves
    pub value: (u64, u64),
}

fn kmer_int(c: &KCase) -> PResult {
    let (id, st, k) = (c.codec, c.st, c.k);
    let m = id.model();
    let tag = format!("{}/{}", id.name(), st.name());
    let width = k * m.bits;
    let mut v = ((c.value.0 as u128) << 64) | c.value.1 as u128;
    if width < 128 {
        v &= (1u128 << width) - 1;
    }
    let codes = model::unpack_u128(v, m.bits, k);
    // a pattern counts as decodable when it is (an alternative of) a symbol of the parse alphabet
    let dec = |p: u8| m.decode_bits(p).filter(|c| m.codes().contains(c));
    let decodable = codes.iter().all(|p| dec(*p).is_some());
    // symbols -> integer
    let canon: Vec<u8> = codes.iter().map(|p| dec(*p).unwrap_or(m.codes()[0])).collect();
    let exp_int = model::pack_u128(&canon, m.bits);
    let info = want_info(no_panic(&format!("kmer_build_panic/{tag}"), "building a k-mer", || kcall(id, k, st, &KReq::Info(canon.clone())))?, "info")?;
    ensure_eq!(info.bs, exp_int, format!("kmer_bits/{tag}"), "storage integer of Kmer<{},{k},{}> {}", id.name(), st.name(), m.text(&canon));
    if st == St::Usize {
        match kcall_usize(id, k, &UReq::Views(canon.clone())) {
            Some(Ok(URes::Views(vw))) => ensure_eq!(vw.to_usize as u128, exp_int, format!("usize_from_kmer/{tag}"), "usize::from(&kmer) of {}", m.text(&canon)),
            Some(Err(f)) => return Err(f),
            other => fail!("harness/dispatch", "views: {other:?}"),
        }
    }
    // integer -> symbols (only patterns that are symbols of the codec; canonical text for alternatives)
    if decodable && st != St::U128 {
        let exp_text = m.text(&canon);
        if st == St::Usize {
            match no_panic(&format!("kmer_from_int_panic/{tag}"), "Kmer::from(usize)", || kcall_usize(id, k, &UReq::FromInt(v as usize)))? {
                Some(Ok(URes::Info(i))) => {
                    ensure_eq!(i.display, exp_text, format!("kmer_from_int/{tag}"), "Kmer::<{},{k}>::from({v}usize).to_string()", id.name());
                    ensure_eq!(i.bs, v, format!("kmer_from_int_bits/{tag}"), "Kmer::from({v}).bs");
                }
                Some(Err(f)) => return Err(f),
                other => fail!("harness/dispatch", "from int: {other:?}"),
            }
        } else {
            for via in [false, true] {
                match no_panic(&format!("kmer_from_int_panic/{tag}"), "Kmer::<_,_,u64>::from(int)", || kcall_u64_from_int(id, k, v, via))? {
                    Some(Ok(i)) => {
                        ensure_eq!(i.display, exp_text, format!("kmer_from_int/{tag}"), "Kmer::<{},{k},u64>::from({v}{}).to_string()", id.name(), if via { "usize" } else { "u64" });
                        ensure_eq!(i.bs, v, format!("kmer_from_int_bits/{tag}"), "Kmer::<_,_,u64>::from({v}).bs");
                    }
                    Some(Err(f)) => return Err(f),
                    None => fail!("harness/dispatch", "u64 from int K={k}"),
                }
            }
        }
    }
    Ok(Pass::new(true).class_if(width == st.bits(), "full_width").class_if(decodable, "int_decoded"))
}

#[derive(Clone, Debug, Serialize, Deserialize)]
pub struct ImgCase {
    pub codec: CodecId,
    pub s: SeqSpec,
    /// extra requested symbol counts (scaled into 0..=cap+2); all counts are tried when cap <= 70
    pub counts: Vec<u16>,
}

fn image<C: Cm>(case: &ImgCase) -> PResult {
    let sy = Syms::<C>::new()?;
    let n_ = C::ID.name();
    let bits = sy.bits();
    let codes = &case.s.codes;
    let n = codes.len();
    let owned: Seq<C> = build(&sy, &case.s)?.into_seq();
    let kind = case.s.repr.kind();
    check_image(&owned, codes, &format!("into_raw/{n_}")).map_err(|f| Fail { site: f.site, msg: format!("sequence produced by `{kind}`: {}", f.msg) })?;
    let raw: Vec<usize> = owned.into_raw().to_vec();
    let cap = raw.len() * 64 / bits;
    // rebuilding with the true count gives an equal sequence
    let back = no_panic(&format!("from_raw_panic/{n_}"), "from_raw(len, into_raw())", || Seq::<C>::from_raw(n, &raw))?;
    match &back {
        Some(s) => {
            ensure!(*s == owned && owned == *s, format!("from_raw_roundtrip/{n_}"), "from_raw(len, into_raw()) != self for a sequence produced by `{kind}`: {} vs {}", s, owned);
            check_symbols(&sy, s, codes, &format!("from_raw_roundtrip/{n_}"))?;
        }
        None => fail!(format!("from_raw_roundtrip_none/{n_}"), "from_raw({n}, into_raw()) returned None for a sequence produced by `{kind}` ({} words)", raw.len()),
    }
    let mut counts: Vec<usize> = if n > 1500 {
        vec![0, n - 1, n, n + 1, cap, cap + 1]
    } else if cap + 2 <= 70 { (0..=cap + 2).collect() } else { vec![0, 1, n.saturating_sub(1), n, n + 1, cap.saturating_sub(1), cap, cap + 1, cap + 2, cap + 64 / bits, raw.len() * 64 - 1, raw.len() * 64, raw.len() * 64 + 1] };
    for c in &case.counts {
        counts.push(scale16(*c, cap + 2));
    }
    // counts whose bit length does not fit in usize must be refused, not wrapped
    counts.extend([usize::MAX, usize::MAX - 1, 1usize << 63, (1usize << 63) + 1, 1usize << 62, 1usize << 61, usize::MAX / bits, (usize::MAX / bits).saturating_add(1), (usize::MAX / bits / 2 + 1).saturating_mul(3), 1usize << 60, (1usize << 58) + 1]);
    counts.sort();
    counts.dedup();
    let mut refused = 0;
    for c in counts {
        let r = no_panic(&format!("from_raw_panic/{n_}"), &format!("from_raw({c}, {} words)", raw.len()), || Seq::<C>::from_raw(c, &raw))?;
        if c.checked_mul(bits).map_or(false, |b| b <= raw.len() * 64) {
            match r {
                Some(s) => {
                    ensure_eq!(s.len(), c, format!("from_raw_len/{n_}"), "from_raw({c}, {} words).len()", raw.len());
                    let k = c.min(n);
                    let got: Vec<u8> = s.iter().take(k).map(|x| x.to_bits()).collect();
                    ensure_eq!(&got[..], &codes[..k], format!("from_raw_symbols/{n_}"), "first {k} symbols of from_raw({c}, into_raw())");
                }
                None => fail!(format!("from_raw_refused/{n_}"), "from_raw({c}, {} words) returned None although the image holds {} symbols", raw.len(), cap),
            }
        } else {
            refused += 1;
            if let Some(s) = r {
                fail!(format!("from_raw_overlong/{n_}"), "from_raw({c}, {} words) returned a sequence of length {} although the image holds only {cap} symbols", raw.len(), s.len());
            }
        }
    }
    let _ = refused;
    Ok(Pass::new(!case.s.repr.is_plain()).class(kind).class_if(bits == 5 || bits == 6, "width_not_dividing_64"))
}

pub fn image_dispatch(c: &ImgCase) -> PResult {
    with_codec!(c.codec, C, image::<C>(c))
}

#[derive(Clone, Debug, Serialize, Deserialize)]
pub struct RawCase {
    pub codec: CodecId,
    pub words: Vec<u64>,
}

/// arbitrary images: every count, symbols read straight from the image bits
fn raw_image<C: Cm>(case: &RawCase) -> PResult {
    let n_ = C::ID.name();
    let bits = C::ID.bits();
    let m = C::ID.model();
    let raw: Vec<usize> = case.words.iter().map(|w| *w as usize).collect();
    let cap = raw.len() * 64 / bits;
    for c in 0..=cap + 2 {
        let r = no_panic(&format!("from_raw_panic/{n_}"), &format!("from_raw({c}, {} arbitrary words)", raw.len()), || Seq::<C>::from_raw(c, &raw))?;
        if c * bits <= raw.len() * 64 {
            let s = match r {
                Some(s) => s,
                None => fail!(format!("from_raw_refused/{n_}"), "from_raw({c}, {} words) returned None although the image holds {cap} symbols", raw.len()),
            };
            ensure_eq!(s.len(), c, format!("from_raw_len/{n_}"), "from_raw({c}, ..).len()");
            // every pattern of the codec's width is a symbol in all built-in codecs: compare canonical codes
            let exp: Vec<u8> = (0..c).map(|i| { let p = (0..bits).fold(0u8, |acc, b| acc | ((model::bit_of(&case.words, i * bits + b) as u8) << b)); m.decode_bits(p).unwrap_or(255) }).collect();
            if exp.iter().all(|x| *x != 255) {
                let got: Vec<u8> = no_panic(&format!("from_raw_iter_panic/{n_}"), "iterating a rebuilt sequence", || s.iter().map(|x| x.to_bits()).collect())?;
                ensure_eq!(got, exp, format!("from_raw_arbitrary/{n_}"), "symbols of from_raw({c}, arbitrary image)");
            }
            // exporting again reproduces the live bits
            let again = s.into_raw();
            for pos in 0..c * bits {
                let g = (again[pos / 64] >> (pos % 64)) & 1 == 1;
                ensure!(g == model::bit_of(&case.words, pos), format!("raw_roundtrip/{n_}"), "into_raw(from_raw({c}, image)) differs from the image at bit {pos}");
            }
        } else if let Some(s) = r {
            fail!(format!("from_raw_overlong/{n_}"), "from_raw({c}, {} words) returned a sequence of length {} although the image holds only {cap} symbols", raw.len(), s.len());
        }
    }
    if C::ID == CodecId::Text {
        let s: Seq<TextC> = Seq::from(raw.clone());
        ensure_eq!(s.len(), raw.len() * 8, "text_from_words/len", "Seq::<text::Dna>::from(Vec<usize>) length");
        ensure_eq!(s.into_raw().to_vec(), raw.clone(), "text_from_words/image", "Seq::<text::Dna>::from(Vec<usize>).into_raw()");
        for (i, x) in s.iter().enumerate().take(64) {
            let byte = (case.words[i / 8] >> (8 * (i % 8))) as u8;
            ensure_eq!(x.to_bits(), byte, "text_from_words/bytes", "byte {i} of Seq::<text::Dna>::from(Vec<usize>)");
        }
    }
    Ok(Pass::new(!raw.is_empty()).class_if(raw.is_empty(), "empty_image"))
}

pub fn raw_dispatch(c: &RawCase) -> PResult {
    with_codec!(c.codec, C, raw_image::<C>(c))
}

fn readme(_: &u8) -> PResult {
    // README table: 0: AAAAA 1: CAAAA ... 15: TTAAA
    let table = ["AAAAA", "CAAAA", "GAAAA", "TAAAA", "ACAAA", "CCAAA", "GCAAA", "TCAAA", "AGAAA", "CGAAA", "GGAAA", "TGAAA", "ATAAA", "CTAAA", "GTAAA", "TTAAA"];
    for (i, t) in table.iter().enumerate() {
        let k = Kmer::<DnaC, 5>::from(i);
        ensure_eq!(k.to_string(), t.to_string(), "readme/table", "Kmer::<Dna,5>::from({i})");
        ensure_eq!(usize::from(&k), i, "readme/table_back", "usize::from(&Kmer::from({i}))");
    }
    // doc examples of the raw image
    let seq: Seq<DnaC> = dna!("TTTTTTTTTTTTTTTTCCCCCCCCCCCCCCCCACGT").into();
    let raw = seq.into_raw();
    ensure!(raw[0] == 0b0101010101010101010101010101010111111111111111111111111111111111 && raw[1] == 0b11100100, "readme/into_raw", "documented into_raw example");
    Ok(Pass::new(true))
}

fn int_strat(id: CodecId) -> BoxedStrategy<IntCase> {
    let m = id.model();
    let per = 64 / m.bits;
    let lens = prop_oneof![
        6 => 1..=per,
        2 => Just(per),
        2 => (65usize.div_ceil(m.bits))..=(80 / m.bits).max(65usize.div_ceil(m.bits)),
    ];
    (lens, gen::repr(m))
        .prop_flat_map(move |(n, repr)| gen::codes_n(m, n).prop_map(move |codes| SeqSpec { codes, repr: repr.clone() }))
        .prop_map(move |s| IntCase { codec: id, s })
        .boxed()
}

pub fn run(ctx: &mut Ctx) {
    for id in ALL_CODECS {
        let cases = ctx.cases(2500, 10);
        ctx.forall(&format!("integers/{}", id.name()), cases, int_strat(id), int_dispatch);
        let max = ctx.pick(200, 1500);
        let cases = ctx.cases(1200, 10);
        let st = (gen::owned_spec(id, max), vec(any::<u16>(), 0..4)).prop_map(move |(s, counts)| ImgCase { codec: id, s, counts });
        ctx.forall(&format!("word_image/{}", id.name()), cases, st, image_dispatch);
        let lens = gen::long_lens_bits(id.bits(), ctx.thorough(), ctx.seed);
        ctx.forall_lens(&format!("word_image_long/{}", id.name()), &lens, |n| gen::owned_spec_n(id, n).prop_map(move |s| ImgCase { codec: id, s, counts: vec![] }), image_dispatch);
        let cases = ctx.cases(300, 10);
        let st = vec(prop_oneof![3 => any::<u64>(), 1 => Just(0u64), 1 => Just(u64::MAX)], 0..=4).prop_map(move |words| RawCase { codec: id, words });
        ctx.forall(&format!("arbitrary_image/{}", id.name()), cases, st, raw_dispatch);
    }
    // k-mers <-> integers for every type
    let types = ktypes();
    for id in ALL_CODECS {
        for st in ALL_ST {
            let ks: Vec<usize> = types.iter().filter(|t| t.0 == id && t.1 == st).map(|t| t.2).collect();
            if ks.is_empty() {
                continue;
            }
            let cases = ctx.cases((ks.len() * 60) as u32, 10);
            let s = (select(ks), prop_oneof![4 => any::<(u64, u64)>(), 1 => Just((0u64, 0u64)), 1 => Just((u64::MAX, u64::MAX)), 1 => (0..70u32).prop_map(|b| if b < 64 { (0, 1u64 << b) } else { (1u64 << (b - 64), 0) })]).prop_map(move |(k, value)| KCase { codec: id, st, k, value });
            ctx.forall(&format!("kmer_int/{}/{}", id.name(), st.name()), cases, s, kmer_int);
        }
    }
    // exhaustive: every integer of the small types
    let mut cells = vec![];
    for (id, st, k) in &types {
        let w = k * id.bits();
        if w <= 12 {
            for v in 0..(1u64 << w) {
                cells.push(KCase { codec: *id, st: *st, k: *k, value: (0, v) });
            }
        }
    }
    ctx.each("all_small_integers", cells, kmer_int);
    // exhaustive: every window (offset x length) whose bits fit in a word, one fixed parent per codec
    let mut cells = vec![];
    for id in ALL_CODECS {
        let m = id.model();
        let per = 64 / m.bits;
        let parent: Vec<u8> = (0..3 * per + 4).map(|i| m.codes()[(i * 7 + i / 4 + 3) % m.nsyms()]).collect();
        for pre in 0..=per + 1 {
            for n in 1..=(per + 2).min(parent.len() - pre) {
                if per > 16 && n > 3 && n < per - 2 && pre % 5 != 0 {
                    continue;
                }
                cells.push(IntCase { codec: id, s: SeqSpec { codes: parent[pre..pre + n].to_vec(), repr: Repr::Slice { pre: parent[..pre].to_vec(), post: parent[pre + n..].to_vec() } } });
            }
        }
    }
    ctx.each("all_windows_to_int", cells, int_dispatch);
    ctx.each("readme", vec![0u8], readme);
    for c in ["too_long", "exactly_one_word", "straddles_words", "offset_owned", "and", "or", "torev2", "edited", "removed_prefix", "truncated", "appended", "prepended", "width_not_dividing_64", "full_width", "int_decoded", "empty_image"] {
        ctx.require_class(c);
    }
}
