//! C13 — standard DNA -> amino translation is the standard genetic code for every codon.

use crate::codecs::*;
use crate::gen;
use crate::model::{self, CodecId};
use crate::obs::*;
use bio_seq::prelude::*;
use bio_seq::translation::{TranslationTable, STANDARD};
use serde::{Deserialize, Serialize};

#[derive(Clone, Debug, Serialize, Deserialize)]
pub struct Cell {
    /// 6-bit pattern = the codon
    pub pattern: u8,
    /// symbol position of the codon inside the 40-symbol parent
    pub pos: u8,
    /// 0: borrowed window, 1: offset-born owned copy, 2: freshly parsed
    pub how: u8,
    pub flank_seed: u8,
}

fn cell(c: &Cell) -> PResult {
    let sy = Syms::<DnaC>::new()?;
    let codon_letters = model::pattern_codon(c.pattern);
    let codon: Vec<u8> = codon_letters.iter().map(|&b| model::dna_code(b)).collect();
    let pos = c.pos as usize;
    let mut parent: Vec<u8> = (0..40).map(|i| ((i * 7 + c.flank_seed as usize * 13 + i / 3) % 4) as u8).collect();
    parent[pos..pos + 3].copy_from_slice(&codon);
    let exp = model::ncbi_translate(&codon_letters);
    let spec = match c.how {
        0 => SeqSpec { codes: codon.clone(), repr: Repr::Slice { pre: parent[..pos].to_vec(), post: parent[pos + 3..].to_vec() } },
        1 => SeqSpec { codes: codon.clone(), repr: Repr::OffsetOwned { pre: parent[..pos].to_vec(), post: parent[pos + 3..].to_vec() } },
        _ => SeqSpec { codes: codon.clone(), repr: Repr::Parse },
    };
    let b = build(&sy, &spec)?;
    let what = format!("codon {} at symbol {pos} (how={})", String::from_utf8_lossy(&codon_letters), c.how);
    let aa = no_panic("to_amino_panic", &format!("STANDARD.to_amino, {what}"), || STANDARD.to_amino(b.slice()))?;
    ensure_eq!(aa.to_char(), exp as char, "to_amino", "STANDARD.to_amino of {what}");
    let straddles = (pos * 2) / 64 != (pos * 2 + 5) / 64;
    Ok(Pass::new(true).class_if(straddles && c.how == 0, "codon_straddles_word"))
}

fn seq_case(s: &SeqSpec) -> PResult {
    let sy = Syms::<DnaC>::new()?;
    let sa = Syms::<AminoC>::new()?;
    let b = build(&sy, s)?;
    let sl = b.slice();
    let letters: Vec<u8> = s.codes.iter().map(|&c| model::dna_char(c)).collect();
    let n = letters.len();
    let exp_w: String = if n >= 3 { letters.windows(3).map(|w| model::ncbi_translate(w) as char).collect() } else { String::new() };
    let exp_c: String = letters.chunks_exact(3).map(|w| model::ncbi_translate(w) as char).collect();
    let got_w: Seq<AminoC> = no_panic("to_amino_panic", "translating windows(3)", || sl.windows(3).take(n + 2).map(|c| STANDARD.to_amino(c)).collect())?;
    ensure_eq!(got_w.to_string(), exp_w, "windows3", "translation by windows(3) of {}", String::from_utf8_lossy(&letters));
    let got_c: Seq<AminoC> = no_panic("to_amino_panic", "translating chunks(3)", || sl.chunks(3).take(n + 2).map(|c| STANDARD.to_amino(c)).collect())?;
    ensure_eq!(got_c.to_string(), exp_c, "chunks3", "translation by chunks(3) of {}", String::from_utf8_lossy(&letters));
    // the form in the `chunks` documentation: codons collected as owned sequences first
    let got_o: String = no_panic("to_amino_panic", "translating owned chunks(3)", || {
        let codons: Vec<Seq<DnaC>> = sl.chunks(3).take(n + 2).collect();
        codons.iter().map(|c| STANDARD.to_amino(c).to_char()).collect()
    })?;
    ensure_eq!(got_o, exp_c, "owned_chunks3", "translation of chunks(3) collected into Vec<Seq> of {}", String::from_utf8_lossy(&letters));
    let got_ow: String = no_panic("to_amino_panic", "translating owned windows(3)", || {
        let codons: Vec<Seq<DnaC>> = sl.windows(3).take(n + 2).collect();
        codons.iter().map(|c| STANDARD.to_amino(c).to_char()).collect()
    })?;
    ensure_eq!(got_ow, exp_w, "owned_windows3", "translation of windows(3) collected into Vec<Seq> of {}", String::from_utf8_lossy(&letters));
    // reading frames the usual way: skip(frame).step_by(3) over windows, and nth
    for frame in 0..3usize {
        let exp_f: String = if n >= 3 { letters.windows(3).skip(frame).step_by(3).map(|w| model::ncbi_translate(w) as char).collect() } else { String::new() };
        let got_f: String = no_panic("to_amino_panic", "translating a reading frame", || sl.windows(3).skip(frame).step_by(3).take(n + 2).map(|c| STANDARD.to_amino(c).to_char()).collect())?;
        ensure_eq!(got_f, exp_f, "reading_frame", "translation of frame {frame} by windows(3).skip({frame}).step_by(3) of {}", String::from_utf8_lossy(&letters));
        let exp_c: String = letters.chunks_exact(3).skip(frame).step_by(2).map(|w| model::ncbi_translate(w) as char).collect();
        let got_c: String = sl.chunks(3).skip(frame).step_by(2).take(n + 2).map(|c| STANDARD.to_amino(c).to_char()).collect();
        ensure_eq!(got_c, exp_c, "chunk_frames", "chunks(3).skip({frame}).step_by(2)");
    }
    // fold-based consumers after advancing: collect into a Seq<Amino> (uses fold), count, last
    if n >= 3 {
        for k in [1usize, 2, (n / 3).max(1)] {
            let exp_s: String = letters.chunks_exact(3).skip(k).map(|w| model::ncbi_translate(w) as char).collect();
            let got_s: Seq<AminoC> = no_panic("to_amino_panic", "chunks(3).skip(k) collected into Seq<Amino>", || sl.chunks(3).skip(k).map(|c| STANDARD.to_amino(c)).collect())?;
            ensure_eq!(got_s.to_string(), exp_s, "chunks_skip_collect", "chunks(3).skip({k}).map(to_amino).collect::<Seq<Amino>>()");
            let exp_w: String = letters.windows(3).skip(k).map(|w| model::ncbi_translate(w) as char).collect();
            let got_w: Seq<AminoC> = sl.windows(3).skip(k).map(|c| STANDARD.to_amino(c)).collect();
            ensure_eq!(got_w.to_string(), exp_w, "windows_skip_collect", "windows(3).skip({k}).map(to_amino).collect::<Seq<Amino>>()");
            ensure_eq!(sl.windows(3).skip(k).count(), letters.windows(3).skip(k).count(), "windows_skip_count", "windows(3).skip({k}).count()");
        }
    }
    if n >= 5 {
        let k = n / 2;
        let w = no_panic("to_amino_panic", "windows(3).nth", || sl.windows(3).nth(k).map(|c| STANDARD.to_amino(c).to_char()))?;
        ensure_eq!(w, letters.windows(3).nth(k).map(|w| model::ncbi_translate(w) as char), "nth_window", "translation of windows(3).nth({k})");
    }
    // the amino sequence is itself a well-formed sequence
    let reparsed = Seq::<AminoC>::try_from(exp_w.as_str());
    ensure!(reparsed.as_ref().ok() == Some(&got_w), "amino_seq", "translated sequence != parsing its text");
    let _ = sa;
    Ok(Pass::new(n >= 4).class_if(s.bit_offset(2) != 0, "offset"))
}

pub fn run(ctx: &mut Ctx) {
    let mut cells = vec![];
    for pattern in 0..64u8 {
        for pos in 0..=36u8 {
            for how in 0..3u8 {
                cells.push(Cell { pattern, pos, how, flank_seed: pattern.wrapping_mul(3).wrapping_add(pos) });
            }
        }
    }
    ctx.each("codons_x_positions", cells, cell);
    let cases = ctx.cases(2000, 10);
    let max = ctx.pick(300, 1500);
    ctx.forall("sequences", cases, gen::seq_spec(CodecId::Dna, max), seq_case);
    let mut lens = gen::long_lens(ctx.thorough(), ctx.seed);
    // enough codons that the translated sequence itself crosses 2^18 bits (6-bit symbols)
    lens.push((1usize << 18) / 6 + 12);
    if ctx.thorough() {
        lens.push(3 * ((1usize << 18) / 6) + 40);
    }
    ctx.forall_lens("sequences_long", &lens, |n| gen::seq_spec_n(CodecId::Dna, n), seq_case);
    ctx.require_class("codon_straddles_word");
    ctx.require_class("offset");
}
