//! C07 — reverse, complement and reverse-complement of sequences are exact and involutive.

use crate::codecs::*;
use crate::gen;
use crate::model::{self, CodecId, ALL_CODECS};
use crate::obs::*;
use crate::oracle::*;
use bio_seq::prelude::*;
use proptest::prelude::*;
use serde::{Deserialize, Serialize};

#[derive(Clone, Debug, Serialize, Deserialize)]
pub struct Case {
    pub codec: CodecId,
    pub s: SeqSpec,
}

fn unchanged<C: Cm>(sy: &Syms<C>, built: &Built<C>, spec: &SeqSpec, site: &str) -> R<()> {
    check_symbols(sy, built.slice(), &spec.codes, &format!("{site}/receiver"))?;
    check_symbols(sy, built.parent(), &spec.parent_codes(sy.m), &format!("{site}/parent"))
}

fn check_rev<C: Cm>(case: &Case) -> PResult {
    let sy = Syms::<C>::new()?;
    let n = C::ID.name();
    let bits = sy.bits();
    let codes = &case.s.codes;
    let built = build(&sy, &case.s)?;
    let sl = built.slice();
    let exp = model::rev(codes);

    let r = no_panic(&format!("to_rev_panic/{n}"), "SeqSlice::to_rev", || sl.to_rev())?;
    check_content(&sy, &r, &exp, &format!("slice_to_rev/{n}"))?;
    unchanged(&sy, &built, &case.s, &format!("to_rev/{n}"))?;
    let rr = no_panic(&format!("to_rev_panic/{n}"), "to_rev twice", || r.to_rev())?;
    check_symbols(&sy, &rr, codes, &format!("rev_involution/{n}"))?;
    ensure!(&rr == sl, format!("rev_involution/{n}"), "to_rev().to_rev() != original");

    // owned copy, copying form
    let owned: Seq<C> = sl.to_owned();
    let r2 = owned.to_rev();
    check_symbols(&sy, &r2, &exp, &format!("seq_to_rev/{n}"))?;
    check_symbols(&sy, &owned, codes, &format!("seq_to_rev/{n}/receiver"))?;
    ensure!(r2 == r, format!("rev_agree/{n}"), "Seq::to_rev != SeqSlice::to_rev");
    // in place on a copy
    let mut m1 = owned.clone();
    no_panic(&format!("rev_panic/{n}"), "Seq::rev", || m1.rev())?;
    check_content(&sy, &m1, &exp, &format!("seq_rev/{n}"))?;
    m1.rev();
    check_symbols(&sy, &m1, codes, &format!("rev_involution/{n}"))?;
    // if the representation is itself owned, use it directly too
    if let Some(o) = built.owned() {
        let r3 = o.to_rev();
        check_symbols(&sy, &r3, &exp, &format!("owned_to_rev/{n}"))?;
    }

    let len = codes.len();
    let off = case.s.bit_offset(bits);
    let nt = len >= 2 && exp != *codes && (off != 0 || len * bits > 64);
    Ok(Pass::new(nt)
        .class_if(case.s.straddles(bits), "straddling_symbol")
        .class_if(len == 0, "empty")
        .class_if(len == 1, "single")
        .class_if(off != 0, "offset"))
}

fn check_comp<C: Cm + ComplementMut>(case: &Case) -> PResult {
    let sy = Syms::<C>::new()?;
    let n = C::ID.name();
    let bits = sy.bits();
    let m = sy.m;
    let codes = &case.s.codes;
    let built = build(&sy, &case.s)?;
    let sl = built.slice();
    let exp_c = m.comp_seq(codes);
    let exp_rc = model::rev(&exp_c);

    let c = no_panic(&format!("to_comp_panic/{n}"), "SeqSlice::to_comp", || sl.to_comp())?;
    check_content(&sy, &c, &exp_c, &format!("slice_to_comp/{n}"))?;
    unchanged(&sy, &built, &case.s, &format!("to_comp/{n}"))?;
    let rc = no_panic(&format!("to_revcomp_panic/{n}"), "SeqSlice::to_revcomp", || sl.to_revcomp())?;
    check_content(&sy, &rc, &exp_rc, &format!("slice_to_revcomp/{n}"))?;
    unchanged(&sy, &built, &case.s, &format!("to_revcomp/{n}"))?;

    // either order of composition
    let a = sl.to_rev().to_comp();
    let b = sl.to_comp().to_rev();
    ensure!(a == rc && b == rc, format!("revcomp_compose/{n}"), "revcomp {rc} != rev.comp {a} or comp.rev {b}");
    // involutions
    ensure!(&c.to_comp() == sl, format!("comp_involution/{n}"), "to_comp twice != original");
    ensure!(&rc.to_revcomp() == sl, format!("revcomp_involution/{n}"), "to_revcomp twice != original");

    // owned: copying and in-place forms
    let owned: Seq<C> = sl.to_owned();
    ensure!(owned.to_comp() == c, format!("comp_agree/{n}"), "Seq::to_comp != SeqSlice::to_comp");
    ensure!(owned.to_revcomp() == rc, format!("revcomp_agree/{n}"), "Seq::to_revcomp != SeqSlice::to_revcomp");
    check_symbols(&sy, &owned, codes, &format!("seq_to_comp/{n}/receiver"))?;
    let mut m1 = owned.clone();
    no_panic(&format!("comp_panic/{n}"), "Seq::comp", || m1.comp())?;
    check_symbols(&sy, &m1, &exp_c, &format!("seq_comp/{n}"))?;
    let mut m2 = owned.clone();
    no_panic(&format!("revcomp_panic/{n}"), "Seq::revcomp", || m2.revcomp())?;
    check_content(&sy, &m2, &exp_rc, &format!("seq_revcomp/{n}"))?;
    m2.revcomp();
    check_symbols(&sy, &m2, codes, &format!("revcomp_involution/{n}"))?;

    let len = codes.len();
    let off = case.s.bit_offset(bits);
    let nt = len >= 2 && exp_rc != *codes && (off != 0 || len * bits > 64);
    Ok(Pass::new(nt).class_if(case.s.straddles(bits), "straddling_symbol_comp").class_if(exp_c != *codes, "comp_changes"))
}

pub fn dispatch_rev(case: &Case) -> PResult {
    with_codec!(case.codec, C, check_rev::<C>(case))
}
pub fn dispatch_comp(case: &Case) -> PResult {
    with_comp_codec!(case.codec, C, check_comp::<C>(case))
}

fn strat(id: CodecId, max: usize) -> BoxedStrategy<Case> {
    gen::seq_spec(id, max).prop_map(move |s| Case { codec: id, s }).boxed()
}

pub fn run(ctx: &mut Ctx) {
    let max = ctx.pick(200, 2000);
    for id in ALL_CODECS {
        let cases = ctx.cases(3000, 15);
        ctx.forall(&format!("rev/{}", id.name()), cases, strat(id, max), dispatch_rev);
    }
    for id in COMP_CODECS {
        let cases = ctx.cases(3000, 15);
        ctx.forall(&format!("comp/{}", id.name()), cases, strat(id, max), dispatch_comp);
    }
    for id in ALL_CODECS {
        // includes one sequence just above 32 KiB of packed data, with a partial last word
        let lens = gen::long_lens_bits(id.bits(), ctx.thorough(), ctx.seed);
        ctx.forall_lens(&format!("rev_long/{}", id.name()), &lens, |n| gen::seq_spec_n(id, n).prop_map(move |s| Case { codec: id, s }), dispatch_rev);
        if COMP_CODECS.contains(&id) {
            ctx.forall_lens(&format!("comp_long/{}", id.name()), &lens, |n| gen::seq_spec_n(id, n).prop_map(move |s| Case { codec: id, s }), dispatch_comp);
        }
    }
    // bounded-exhaustive: every window (offset 0..=max_pre, length 0..=L) of one fixed parent per codec
    for id in ALL_CODECS {
        let m = id.model();
        let per = 64 / m.bits + 2;
        let parent: Vec<u8> = (0..(3 * per)).map(|i| m.codes()[(i * 5 + i / 7 + 1) % m.nsyms()]).collect();
        let mut cases = vec![];
        for pre in 0..=per {
            for len in 0..=(per + 3).min(parent.len() - pre) {
                let s = SeqSpec {
                    codes: parent[pre..pre + len].to_vec(),
                    repr: Repr::Slice { pre: parent[..pre].to_vec(), post: parent[pre + len..].to_vec() },
                };
                cases.push(Case { codec: id, s });
            }
        }
        ctx.each(&format!("rev_windows/{}", id.name()), cases.clone(), dispatch_rev);
        if COMP_CODECS.contains(&id) {
            ctx.each(&format!("comp_windows/{}", id.name()), cases, dispatch_comp);
        }
    }
    ctx.require_class("straddling_symbol");
    ctx.require_class("straddling_symbol_comp");
    ctx.require_class("empty");
    ctx.require_class("single");
    ctx.require_class("offset");
}
