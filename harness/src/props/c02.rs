//! C02 — equality and hashing depend only on content, for every sequence type and offset.

use crate::codecs::*;
use crate::gen;
use crate::kmers::*;
use crate::model::{CodecId, ALL_CODECS};
use crate::obs::*;
use crate::oracle::*;
use bio_seq::prelude::*;
use proptest::prelude::*;
use proptest::sample::select;
use serde::{Deserialize, Serialize};
use std::collections::{HashMap, HashSet};

#[derive(Clone, Debug, Serialize, Deserialize)]
pub enum Rel {
    Identical,
    /// one symbol substituted at a (scaled) position by the symbol of this index (forced to differ)
    Subst(u16, u8),
    /// proper prefix of this (scaled) length
    Prefix(u16),
    /// proper suffix
    Suffix(u16),
    /// one symbol appended
    Appended(u8),
    Empty,
    Independent(Vec<u8>),
    /// two substitutions a whole number of 64-bit words apart, applying the same code change (their
    /// bit differences cancel under XOR / word sums)
    TwoSubst(u16, u8, u8),
    /// the same length, every symbol the same one
    Constant(u8),
    /// the same symbols rotated by a whole number of words
    RotatedWords(u8),
    /// one symbol substituted `off` positions from the start (or from the end): differences inside the
    /// first or last words of long operands
    SubstEdge { from_end: bool, off: u8, sym: u8 },
}

#[derive(Clone, Debug, Serialize, Deserialize)]
pub struct Case {
    pub codec: CodecId,
    pub a: SeqSpec,
    pub rel: Rel,
    pub b_repr: Repr,
}

pub fn partner(m: &crate::model::Model, a: &[u8], rel: &Rel) -> Vec<u8> {
    let n = a.len();
    let codes = m.codes();
    match rel {
        Rel::Identical => a.to_vec(),
        Rel::Subst(p, c) => {
            if n == 0 {
                return vec![];
            }
            let at = scale16(*p, n - 1);
            let mut b = a.to_vec();
            let mut i = *c as usize % codes.len();
            if codes[i] == b[at] {
                i = (i + 1) % codes.len();
            }
            b[at] = codes[i];
            b
        }
        Rel::Prefix(l) => {
            if n == 0 {
                vec![]
            } else {
                a[..scale16(*l, n - 1)].to_vec()
            }
        }
        Rel::Suffix(l) => {
            if n == 0 {
                vec![]
            } else {
                a[n - scale16(*l, n - 1)..].to_vec()
            }
        }
        Rel::Appended(c) => {
            let mut b = a.to_vec();
            b.push(codes[*c as usize % codes.len()]);
            b
        }
        Rel::Empty => vec![],
        Rel::Independent(v) => v.iter().map(|c| if codes.contains(c) { *c } else { codes[0] }).collect(),
        Rel::TwoSubst(p, words, c) => {
            let per = (64 / m.bits).max(1);
            let mut b = a.to_vec();
            if m.bits * per == 64 && n > per {
                let first = scale16(*p, n - per - 1);
                let gap = per * (1 + *words as usize % ((n - 1 - first) / per).max(1));
                let second = (first + gap).min(n - 1);
                // choose a pair (x -> y) and apply it at `first`, and the reverse change at `second` when
                // the content allows, otherwise the same target symbol
                let y = codes[*c as usize % codes.len()];
                let x = b[first];
                b[first] = y;
                b[second] = if b[second] == y { x } else if b[second] == x { y } else { b[second] ^ (x ^ y) };
                if !codes.contains(&b[second]) {
                    b[second] = y;
                }
            } else if n > 0 {
                b[0] = codes[(*c as usize + 1) % codes.len()];
            }
            b
        }
        Rel::SubstEdge { from_end, off, sym } => {
            let mut b = a.to_vec();
            if n > 0 {
                let o = (*off as usize).min(n - 1);
                let at = if *from_end { n - 1 - o } else { o };
                let mut c = codes[*sym as usize % codes.len()];
                if c == b[at] {
                    c = codes[(*sym as usize + 1) % codes.len()];
                }
                b[at] = c;
            }
            b
        }
        Rel::Constant(c) => vec![codes[*c as usize % codes.len()]; n],
        Rel::RotatedWords(w) => {
            let per = (64 / m.bits).max(1);
            let mut b = a.to_vec();
            if n > 0 {
                b.rotate_left((per * (1 + *w as usize % 4)) % n);
            }
            b
        }
    }
}

fn check<C: Cm>(case: &Case) -> PResult {
    let sy = Syms::<C>::new()?;
    let n_ = C::ID.name();
    let m = sy.m;
    let ca = &case.a.codes;
    let cb = partner(m, ca, &case.rel);
    let spec_b = SeqSpec { codes: cb.clone(), repr: case.b_repr.clone() };
    let expected = *ca == cb;
    let ba = build(&sy, &case.a)?;
    let bb = build(&sy, &spec_b)?;
    let (sa, sb): (&SeqSlice<C>, &SeqSlice<C>) = (ba.slice(), bb.slice());
    let (oa, ob): (Seq<C>, Seq<C>) = (sa.to_owned(), sb.to_owned());
    // the owned values in their generated provenance where the representation is owned
    let pa: &Seq<C> = ba.owned().unwrap_or(&oa);
    let pb: &Seq<C> = bb.owned().unwrap_or(&ob);
    let what = format!("a = {} [{}], b = {} [{}]", sy.text(ca), case.a.repr.kind(), sy.text(&cb), case.b_repr.kind());
    macro_rules! eqs {
        ($x:expr, $y:expr, $name:expr) => {{
            let e = no_panic(&format!("eq_panic/{n_}"), $name, || $x == $y)?;
            let ne = no_panic(&format!("eq_panic/{n_}"), $name, || $x != $y)?;
            ensure_eq!(e, expected, format!("eq/{n_}"), "({}) == with {what}", $name);
            ensure_eq!(ne, !expected, format!("ne/{n_}"), "({}) != with {what}", $name);
        }};
    }
    // every PartialEq impl between the sequence types, both directions where both exist
    eqs!(*sa, *sb, "SeqSlice == SeqSlice");
    eqs!(*sb, *sa, "SeqSlice == SeqSlice (flipped)");
    eqs!(sa, *sb, "&SeqSlice == SeqSlice");
    eqs!(sb, *sa, "&SeqSlice == SeqSlice (flipped)");
    eqs!(*pa, *pb, "Seq == Seq");
    eqs!(*pb, *pa, "Seq == Seq (flipped)");
    eqs!(*pa, pb, "Seq == &Seq");
    eqs!(pa, *pb, "&Seq == Seq");
    eqs!(*pa, *sb, "Seq == SeqSlice");
    eqs!(*pa, sb, "Seq == &SeqSlice");
    eqs!(*sb, *pa, "SeqSlice == Seq");
    eqs!(sb, *pa, "&SeqSlice == Seq");
    eqs!(*pb, *sa, "Seq == SeqSlice (flipped)");
    eqs!(*sa, *pb, "SeqSlice == Seq (flipped)");
    eqs!(oa, *pb, "Seq(copy) == Seq");
    // against displayed text
    let (ta, tb) = (sy.text(ca), sy.text(&cb));
    eqs!(*sa, tb.as_str(), "SeqSlice == &str (text of b)");
    eqs!(*sb, ta.as_str(), "SeqSlice == &str (text of a)");
    let own = no_panic(&format!("eq_panic/{n_}"), "slice == own text", || *sa == ta.as_str())?;
    ensure!(own, format!("eq_own_text/{n_}"), "a sequence does not compare equal to its own displayed text {ta:?} [{}]", case.a.repr.kind());
    // text that is no sequence's display (a non-symbol character, or one character more / less) equals nothing
    if !ca.is_empty() {
        let refused = m.refused_bytes();
        let bad = refused.iter().copied().find(|b| b.is_ascii_graphic()).unwrap_or(b'#') as char;
        let at = ca.len() / 2;
        let mut t: Vec<char> = ta.chars().collect();
        t[at] = bad;
        let bad_text: String = t.into_iter().collect();
        ensure!(!(*sa == bad_text.as_str()), format!("eq_bad_text/{n_}"), "a sequence compares equal to {bad_text:?}, which contains the non-symbol character {bad:?}");
        let longer = format!("{ta}{}", &ta[..1]);
        ensure!(!(*sa == longer.as_str()), format!("eq_longer_text/{n_}"), "a sequence compares equal to its own text with one more character");
        ensure!(!(*sa == &ta[1..]), format!("eq_shorter_text/{n_}"), "a sequence compares equal to its own text without the first character");
    }
    // reflexivity of every representation
    ensure!(*sa == *sa && *pa == *pa && *sb == *sb, format!("reflexive/{n_}"), "a value is not equal to itself: {what}");

    // hashing: every representation of a hashes like every other representation of the same content
    check_same_hash(sa, &oa, &format!("hash_slice_vs_copy/{n_}"), &format!("slice vs owned copy, {what}"))?;
    check_same_hash(sa, pa, &format!("hash_slice_vs_owned/{n_}"), &format!("slice vs owned value [{}], {what}", case.a.repr.kind()))?;
    let fresh = sy.seq(ca);
    check_same_hash(&fresh, pa, &format!("hash_fresh_vs_owned/{n_}"), &format!("freshly collected vs owned value [{}] of {}", case.a.repr.kind(), ta))?;
    check_same_hash(&fresh, sa, &format!("hash_fresh_vs_slice/{n_}"), &format!("freshly collected vs slice [{}] of {}", case.a.repr.kind(), ta))?;
    check_same_hash(&&fresh, sa, &format!("hash_ref/{n_}"), "&Seq vs &SeqSlice")?;
    if expected {
        check_same_hash(sa, sb, &format!("hash_equal_values/{n_}"), &what)?;
        check_same_hash(pa, pb, &format!("hash_equal_owned/{n_}"), &what)?;
        check_same_hash(pa, sb, &format!("hash_equal_mixed/{n_}"), &what)?;
    } else {
        // not required by the property, but a useful health signal: different content should not collide systematically
        let _ = rec_hash(sa) == rec_hash(sb);
    }
    // an owned sequence used as a map key is found by a borrowed slice with the same content
    let mut map: HashMap<Seq<C>, u32> = HashMap::new();
    map.insert(pa.clone(), 7);
    let hit = no_panic(&format!("map_panic/{n_}"), "HashMap::get(&SeqSlice)", || map.get(sb).copied())?;
    ensure_eq!(hit.is_some(), expected, format!("map_lookup/{n_}"), "HashMap<Seq,_> keyed by a [{}] queried with slice b: {what}", case.a.repr.kind());
    ensure!(map.get(sa) == Some(&7), format!("map_lookup_self/{n_}"), "HashMap<Seq,_> keyed by a is not found by a's own slice: {what}");
    ensure!(map.contains_key(&fresh), format!("map_lookup_fresh/{n_}"), "HashMap<Seq,_> keyed by a [{}] is not found by a freshly built equal Seq", case.a.repr.kind());
    let mut set: HashSet<Seq<C>> = HashSet::new();
    set.insert(pa.clone());
    set.insert(pb.clone());
    set.insert(fresh.clone());
    ensure_eq!(set.len(), if expected { 1 } else { 2 }, format!("set_dedup/{n_}"), "HashSet of {{a, b, fresh a}}: {what}");
    let mut fixed: HashMap<Seq<C>, u32, std::hash::BuildHasherDefault<Fnv>> = HashMap::default();
    fixed.insert(ob.clone(), 1);
    ensure_eq!(fixed.get(sa).is_some(), expected, format!("map_lookup_fnv/{n_}"), "FNV-hashed map keyed by b queried with slice a: {what}");

    let bits = sy.bits();
    let (offa, offb) = (case.a.bit_offset(bits), spec_b.bit_offset(bits));
    let related = !matches!(case.rel, Rel::Independent(_));
    let nt = !ca.is_empty() && !cb.is_empty() && related && (case.a.repr.kind() != case.b_repr.kind() || offa != offb);
    Ok(Pass::new(nt)
        .class_if(expected, "equal")
        .class_if(!expected, "unequal")
        .class_if(offa != offb, "different_bit_offsets")
        .class_if(case.a.straddles(bits) || spec_b.straddles(bits), "straddling_symbol")
        .class_if(ba.is_static() || bb.is_static(), "static_side")
        .class_if(matches!(case.a.repr, Repr::RawBitVec { .. }) || matches!(case.b_repr, Repr::RawBitVec { .. }), "raw_bitvec_side")
        .class_if(matches!(case.a.repr, Repr::Truncated { .. } | Repr::Edited { .. } | Repr::RemovedPrefix { .. } | Repr::Refilled { .. } | Repr::TruncExtend { .. }), "edited_side"))
}

/// long operands that differ in exactly one symbol on or next to a power-of-two block boundary:
/// unequal in every pairing, and unequal texts
fn boundaries<C: Cm>(s: &SeqSpec) -> PResult {
    let sy = Syms::<C>::new()?;
    let n = C::ID.name();
    let built = build(&sy, s)?;
    let a: Seq<C> = built.slice().to_owned();
    let codes = sy.m.codes();
    let len = s.codes.len();
    let mut tried = 0;
    for p in gen::boundary_positions(len, sy.bits()) {
        let old = s.codes[p];
        let i = codes.iter().position(|c| *c == old).unwrap_or(0);
        let new = codes[(i + 1) % codes.len()];
        if new == old {
            continue;
        }
        let b = gen::with_symbol(&a, p, sy.sym(new));
        let what = format!("two {len}-symbol sequences that differ only at symbol {p}");
        ensure!(!(a == b) && a != b && !(b == a), format!("boundary_seq_eq/{n}"), "Seq == Seq holds for {what}");
        ensure!(!(built.slice() == &b[..]) && !(&b[..] == built.slice()), format!("boundary_slice_eq/{n}"), "SeqSlice == SeqSlice holds for {what}");
        ensure!(!(a == &b[..]) && !(&b[..] == a), format!("boundary_mixed_eq/{n}"), "Seq == &SeqSlice holds for {what}");
        tried += 1;
    }
    // the same window of two parents (equal bit phase on both sides): every position of the first and
    // last two words, and the block boundaries
    if let Built::Window { parent, lo, hi } = &built {
        let per = (64 / sy.bits()).max(1);
        let mut ps: Vec<usize> = (0..len.min(2 * per + 2)).chain(len.saturating_sub(2 * per + 2)..len).collect();
        ps.extend(gen::boundary_positions(len, sy.bits()));
        ps.sort();
        ps.dedup();
        for p in ps {
            let old = s.codes[p];
            let i = codes.iter().position(|c| *c == old).unwrap_or(0);
            let new = codes[(i + 1) % codes.len()];
            if new == old {
                continue;
            }
            let other = gen::with_symbol(parent, lo + p, sy.sym(new));
            let (x, y) = (&parent[*lo..*hi], &other[*lo..*hi]);
            ensure!(!(x == y) && !(y == x) && x != y, format!("boundary_same_phase_eq/{n}"), "two {len}-symbol windows starting {lo} symbols into their parents and differing only at symbol {p} compare equal");
            tried += 1;
        }
    }
    // and the unchanged copy is equal
    let same = gen::with_symbol(&a, len / 2, sy.sym(s.codes[len / 2]));
    ensure!(a == same && built.slice() == &same[..], format!("boundary_equal/{n}"), "a rebuilt copy of a {len}-symbol sequence is not equal to it");
    Ok(Pass::new(tried > 0))
}

fn boundaries_dispatch(case: &Case) -> PResult {
    with_codec!(case.codec, C, boundaries::<C>(&case.a))
}

pub fn dispatch(case: &Case) -> PResult {
    with_codec!(case.codec, C, check::<C>(case))
}

fn rel(m: &'static crate::model::Model) -> BoxedStrategy<Rel> {
    prop_oneof![
        6 => Just(Rel::Identical),
        5 => (prop_oneof![Just(0u16), Just(65535u16), any::<u16>()], any::<u8>()).prop_map(|(p, c)| Rel::Subst(p, c)),
        2 => any::<u16>().prop_map(Rel::Prefix),
        2 => any::<u16>().prop_map(Rel::Suffix),
        1 => any::<u8>().prop_map(Rel::Appended),
        1 => Just(Rel::Empty),
        2 => gen::codes(m, 60).prop_map(Rel::Independent),
        3 => (any::<u16>(), any::<u8>(), any::<u8>()).prop_map(|(p, w, c)| Rel::TwoSubst(p, w, c)),
        2 => any::<u8>().prop_map(Rel::Constant),
        1 => any::<u8>().prop_map(Rel::RotatedWords),
        2 => (any::<bool>(), any::<u8>(), any::<u8>()).prop_map(|(from_end, off, sym)| Rel::SubstEdge { from_end, off, sym }),
    ]
    .boxed()
}

fn strat(id: CodecId, max: usize) -> BoxedStrategy<Case> {
    let m = id.model();
    (gen::any_spec(id, max), rel(m), gen::any_repr(m)).prop_map(move |(a, rel, b_repr)| Case { codec: id, a, rel, b_repr }).boxed()
}

// ---------------------------------------------------------------------------------------------
// two windows of the SAME parent (shared storage, possibly overlapping, possibly in the same byte)

#[derive(Clone, Debug, Serialize, Deserialize)]
pub struct SameParent {
    pub codec: CodecId,
    pub parent: SeqSpec,
    pub i: u16,
    pub j: u16,
    pub len: u16,
}

fn same_parent<C: Cm>(case: &SameParent) -> PResult {
    let sy = Syms::<C>::new()?;
    let n_ = C::ID.name();
    let built = build(&sy, &case.parent)?;
    let p = built.slice();
    let pc = &case.parent.codes;
    let n = pc.len();
    let len = scale16(case.len, n);
    let i = scale16(case.i, n - len);
    let j = scale16(case.j, n - len);
    let (wa, wb) = (&p[i..i + len], &p[j..j + len]);
    let (ca, cb) = (&pc[i..i + len], &pc[j..j + len]);
    let expected = ca == cb;
    let what = format!("windows [{i}..{}] and [{j}..{}] of one {}-symbol {n_} sequence ({} vs {})", i + len, j + len, n, sy.text(ca), sy.text(cb));
    ensure_eq!(*wa == *wb, expected, format!("same_parent_eq/{n_}"), "SeqSlice == SeqSlice for {what}");
    ensure_eq!(*wb == *wa, expected, format!("same_parent_eq/{n_}"), "SeqSlice == SeqSlice (flipped) for {what}");
    ensure_eq!(wa == *wb, expected, format!("same_parent_eq/{n_}"), "&SeqSlice == SeqSlice for {what}");
    ensure_eq!(*wa != *wb, !expected, format!("same_parent_ne/{n_}"), "SeqSlice != SeqSlice for {what}");
    let oa = wa.to_owned();
    ensure_eq!(oa == *wb, expected, format!("same_parent_eq_owned/{n_}"), "Seq == SeqSlice for {what}");
    ensure_eq!(*wb == oa, expected, format!("same_parent_eq_owned/{n_}"), "SeqSlice == Seq for {what}");
    ensure_eq!(*wa == sy.text(cb).as_str(), expected, format!("same_parent_eq_str/{n_}"), "SeqSlice == &str for {what}");
    // a window always equals itself and a re-borrow of itself
    ensure!(*wa == p[i..][..len], format!("same_parent_reflexive/{n_}"), "a window != a re-borrow of the same range: {what}");
    if expected {
        check_same_hash(wa, wb, &format!("same_parent_hash/{n_}"), &what)?;
    }
    let mut map: HashMap<Seq<C>, u8> = HashMap::new();
    map.insert(oa, 1);
    ensure_eq!(map.get(wb).is_some(), expected, format!("same_parent_map/{n_}"), "map keyed by the first window queried with the second: {what}");
    let bits = sy.bits();
    let same_byte = (i * bits) / 8 == (j * bits) / 8 && i != j;
    Ok(Pass::new(len >= 1 && i != j).class_if(same_byte && len > 0, "windows_start_in_same_byte").class_if(expected && i != j && len > 0, "equal_windows_different_position").class_if(i != j && (i < j + len && j < i + len), "overlapping_windows"))
}

pub fn same_parent_dispatch(c: &SameParent) -> PResult {
    with_codec!(c.codec, C, same_parent::<C>(c))
}

// ---------------------------------------------------------------------------------------------
// k-mers against everything else

#[derive(Clone, Debug, Serialize, Deserialize)]
pub struct KCase {
    pub codec: CodecId,
    pub st: St,
    pub k: usize,
    pub codes: Vec<u8>,
    pub rel: Rel,
    pub other: Repr,
}

fn kcheck(case: &KCase) -> PResult {
    let (id, st, k) = (case.codec, case.st, case.k);
    let m = id.model();
    let tag = format!("{}/{}", id.name(), st.name());
    let ca = &case.codes;
    ensure!(ca.len() == k, "harness", "k-mer case with {} codes for K={k}", ca.len());
    let cb = partner(m, ca, &case.rel);
    let expected = *ca == cb;
    let other = SeqSpec { codes: cb.clone(), repr: case.other.clone() };
    let what = format!("Kmer<{},{k},{}> {} vs {} [{}]", id.name(), st.name(), m.text(ca), m.text(&cb), case.other.kind());
    let r = no_panic(&format!("kmer_eq_panic/{tag}"), &what, || kcall(id, k, st, &KReq::EqSlice(ca.clone(), other.clone())))?;
    let e = match r {
        Some(Ok(KRes::Eq(e))) => e,
        Some(Err(f)) => return Err(f),
        o => fail!("harness/dispatch", "{what}: {o:?}"),
    };
    ensure_eq!(e.eq_slice, expected, format!("kmer_eq_slice/{tag}"), "{what}: Kmer == SeqSlice");
    ensure_eq!(e.ne_slice, !expected, format!("kmer_ne_slice/{tag}"), "{what}: Kmer != SeqSlice");
    ensure_eq!(e.eq_ref, expected, format!("kmer_eq_ref/{tag}"), "{what}: Kmer == &SeqSlice");
    if let Some((x, y)) = e.eq_array {
        ensure_eq!(x, expected, format!("kmer_eq_array/{tag}"), "{what}: Kmer == SeqArray");
        ensure_eq!(y, expected, format!("kmer_eq_array/{tag}"), "{what}: Kmer == &SeqArray");
    }
    // a k-mer hashes like the slice with the same content (whatever representation that slice has)
    let same = SeqSpec { codes: ca.clone(), repr: case.other.clone() };
    let r = kcall(id, k, st, &KReq::EqSlice(ca.clone(), same));
    let s = match r {
        Some(Ok(KRes::Eq(s))) => s,
        Some(Err(f)) => return Err(f),
        o => fail!("harness/dispatch", "{what}: {o:?}"),
    };
    ensure!(s.eq_slice && s.eq_ref && !s.ne_slice, format!("kmer_eq_same/{tag}"), "{what}: k-mer != the slice it has the same symbols as [{}]", case.other.kind());
    ensure!(s.kmer.hash == s.other_hash, format!("kmer_hash_vs_slice/{tag}"), "Kmer<{},{k},{}> {} feeds the hasher {} but the equal slice [{}] feeds {}", id.name(), st.name(), m.text(ca), digest(&s.kmer.hash), case.other.kind(), digest(&s.other_hash));
    if expected {
        ensure!(e.kmer.hash == e.other_hash, format!("kmer_hash_equal/{tag}"), "{what}: equal but hash streams differ");
    }
    // the same k-mer content in the other storage types hashes identically
    for st2 in ALL_ST {
        if st2 != st {
            if let Some(r) = kcall(id, k, st2, &KReq::Info(ca.clone())) {
                let i = match r {
                    Ok(KRes::Info(i)) => i,
                    Err(f) => return Err(f),
                    o => fail!("harness/dispatch", "{o:?}"),
                };
                ensure!(i.hash == s.kmer.hash, format!("kmer_hash_across_storage/{tag}"), "Kmer<{},{k}> {} hashes differently on {} and {}", id.name(), m.text(ca), st.name(), st2.name());
            }
        }
    }
    if st == St::Usize {
        let r = no_panic(&format!("kmer_eq_panic/{tag}"), &what, || kcall_usize(id, k, &UReq::EqSeqStr(ca.clone(), other.clone(), m.text(&cb))))?;
        match r {
            Some(Ok(URes::EqSeqStr(eq_seq, eq_str, _))) => {
                ensure_eq!(eq_seq, expected, format!("kmer_eq_seq/{tag}"), "{what}: Kmer == Seq");
                ensure_eq!(eq_str, expected, format!("kmer_eq_str/{tag}"), "{what}: Kmer == &str");
            }
            Some(Err(f)) => return Err(f),
            o => fail!("harness/dispatch", "{what}: {o:?}"),
        }
        // Deref target hashes like the k-mer
        match kcall_usize(id, k, &UReq::Views(ca.clone())) {
            Some(Ok(URes::Views(v))) => ensure!(v.deref_hash == s.kmer.hash, format!("kmer_hash_vs_deref/{tag}"), "k-mer {} hashes differently from its own dereferenced slice", m.text(ca)),
            Some(Err(f)) => return Err(f),
            o => fail!("harness/dispatch", "{o:?}"),
        }
    }
    let partial = k * m.bits < st.bits();
    Ok(Pass::new(true)
        .class_if(partial, "kmer_shorter_than_storage")
        .class_if(st == St::U128 && k * m.bits <= 64, "u128_one_word_content")
        .class_if(expected, "kmer_equal")
        .class_if(!expected, "kmer_unequal")
        .class_if(other.bit_offset(m.bits) != 0, "kmer_vs_offset_slice"))
}

fn kstrat(id: CodecId, st: St, ks: Vec<usize>) -> BoxedStrategy<KCase> {
    let m = id.model();
    select(ks)
        .prop_flat_map(move |k| (Just(k), gen::codes_n(m, k), rel(m), gen::any_repr(m)))
        .prop_map(move |(k, codes, rel, other)| KCase { codec: id, st, k, codes, rel, other })
        .boxed()
}

pub fn run(ctx: &mut Ctx) {
    let max = ctx.pick(150, 1000);
    for id in ALL_CODECS {
        let cases = ctx.cases(4000, 10);
        ctx.forall(&format!("pairs/{}", id.name()), cases, strat(id, max), dispatch);
    }
    for id in ALL_CODECS {
        let m = id.model();
        let lens = gen::long_lens_bits(id.bits(), ctx.thorough(), ctx.seed);
        ctx.forall_lens(&format!("pairs_long/{}", id.name()), &lens, |n| (gen::seq_spec_n(id, n), rel(m), gen::any_repr(m)).prop_map(move |(a, rel, b_repr)| Case { codec: id, a, rel, b_repr }), dispatch);
        // long operands held the same way (same offset within a word), differing only near one end
        ctx.forall_lens(
            &format!("pairs_long_edges/{}", id.name()),
            &lens,
            |n| {
                (gen::seq_spec_n(id, n), gen::pre_flank(m), any::<bool>(), any::<bool>(), prop_oneof![3 => 0..40u8, 1 => any::<u8>()], any::<u8>()).prop_map(move |(mut a, pre, window, from_end, off, sym)| {
                    if window && !pre.is_empty() {
                        a.repr = Repr::Slice { pre, post: vec![] };
                    }
                    Case { codec: id, b_repr: a.repr.clone(), a, rel: Rel::SubstEdge { from_end, off, sym } }
                })
            },
            dispatch,
        );
        let mut big: Vec<usize> = lens.iter().copied().filter(|n| n * id.bits() >= 4096).collect();
        big.sort();
        let big: Vec<usize> = big.into_iter().rev().take(4).collect();
        ctx.forall_lens(
            &format!("pairs_long_boundaries/{}", id.name()),
            &big,
            |n| {
                (gen::seq_spec_n(id, n), gen::pre_flank(m), any::<bool>()).prop_map(move |(mut a, pre, window)| {
                    if window && !pre.is_empty() {
                        a.repr = Repr::Slice { pre, post: vec![] };
                    }
                    Case { codec: id, b_repr: Repr::Collect, a, rel: Rel::Identical }
                })
            },
            boundaries_dispatch,
        );
    }
    for id in ALL_CODECS {
        let m = id.model();
        let cases = ctx.cases(2500, 10);
        // periodic content makes equal windows at different positions common; nearby starts share a byte
        let parent = prop_oneof![
            2 => gen::seq_spec(id, 120),
            2 => (1..=4usize, gen::repr(m), 0..=120usize).prop_flat_map(move |(period, repr, n)| gen::codes_n(m, period).prop_map(move |unit| SeqSpec { codes: (0..n).map(|k| unit[k % unit.len()]).collect(), repr: repr.clone() })),
        ];
        let st = (parent, any::<u16>(), prop_oneof![2 => any::<u16>(), 1 => Just(0u16)], any::<u16>(), 0..4u16).prop_map(move |(parent, i, dj, len, near)| {
            // j is either independent or within a few symbols of i
            let j = if dj == 0 { i.saturating_add(near * 300) } else { dj };
            SameParent { codec: id, parent, i, j, len }
        });
        ctx.forall(&format!("same_parent/{}", id.name()), cases, st, same_parent_dispatch);
    }
    let types = ktypes();
    for id in ALL_CODECS {
        for st in ALL_ST {
            let ks: Vec<usize> = types.iter().filter(|t| t.0 == id && t.1 == st).map(|t| t.2).collect();
            if ks.is_empty() {
                continue;
            }
            let cases = ctx.cases((ks.len() * 80) as u32, 8);
            ctx.forall(&format!("kmers/{}/{}", id.name(), st.name()), cases, kstrat(id, st, ks), kcheck);
        }
    }
    // every k-mer type at least once against an offset slice, identical and with the last symbol changed
    let mut cells = vec![];
    for (id, st, k) in &types {
        let m = id.model();
        let codes: Vec<u8> = (0..*k).map(|i| m.codes()[(i * 5 + k + 1) % m.nsyms()]).collect();
        let other = Repr::Slice { pre: vec![m.codes()[m.nsyms() - 1]; 1 + k % 3], post: vec![m.codes()[0]] };
        cells.push(KCase { codec: *id, st: *st, k: *k, codes: codes.clone(), rel: Rel::Identical, other: other.clone() });
        cells.push(KCase { codec: *id, st: *st, k: *k, codes: codes.clone(), rel: Rel::Subst(65535, 1), other: other.clone() });
        cells.push(KCase { codec: *id, st: *st, k: *k, codes, rel: Rel::Subst(0, 2), other: Repr::Collect });
    }
    ctx.each("all_kmer_types", cells, kcheck);
    for c in ["windows_start_in_same_byte", "equal_windows_different_position", "overlapping_windows", "equal", "unequal", "different_bit_offsets", "straddling_symbol", "static_side", "raw_bitvec_side", "edited_side", "kmer_shorter_than_storage", "u128_one_word_content", "kmer_vs_offset_slice"] {
        ctx.require_class(c);
    }
}
