//! C20 — soft-masking changes case only and commutes with complement.

use crate::codecs::*;
use crate::gen;
use crate::model::{self, CodecId};
use crate::obs::*;
use crate::oracle::*;
use bio_seq::prelude::*;
use proptest::prelude::*;
use serde::{Deserialize, Serialize};

/// character-level model of masking in the 5-bit IUPAC codec
fn mi_mask(ch: u8) -> u8 {
    if ch == b'-' {
        b'.'
    } else {
        ch.to_ascii_lowercase()
    }
}
fn mi_unmask(ch: u8) -> u8 {
    if ch == b'.' {
        b'-'
    } else {
        ch.to_ascii_uppercase()
    }
}
/// character-level model of the toggling mask of the 4-bit DNA codec; None where nothing is claimed
fn md_toggle(ch: u8) -> Option<u8> {
    match ch {
        b'A' | b'C' | b'G' | b'T' | b'N' => Some(ch.to_ascii_lowercase()),
        b'a' | b'c' | b'g' | b't' | b'n' => Some(ch.to_ascii_uppercase()),
        b'-' | b'.' => Some(ch),
        _ => None,
    }
}

fn mi_symbol(code: &u8) -> PResult {
    let sy = Syms::<MIupacC>::new()?;
    let m = sy.m;
    let s = sy.sym(*code);
    let ch = m.ch(*code);
    let masked = s.to_mask();
    let unmasked = s.to_unmask();
    ensure_eq!(masked.to_char(), mi_mask(ch) as char, "mi/mask_case", "mask of '{}'", ch as char);
    ensure_eq!(unmasked.to_char(), mi_unmask(ch) as char, "mi/unmask_case", "unmask of '{}'", ch as char);
    ensure!(s.to_bits() == *code, "mi/receiver", "to_mask changed its receiver");
    // idempotent, unmask . mask = unmask, mask . unmask = mask
    ensure!(masked.to_mask() == masked, "mi/mask_idempotent", "mask twice != mask");
    ensure!(unmasked.to_unmask() == unmasked, "mi/unmask_idempotent", "unmask twice != unmask");
    ensure!(masked.to_unmask() == unmasked, "mi/unmask_after_mask", "unmask(mask(x)) != unmask(x)");
    ensure!(unmasked.to_mask() == masked, "mi/mask_after_unmask", "mask(unmask(x)) != mask(x)");
    // the nucleotide set never changes
    ensure_eq!(masked.to_bits() & 0b11011, code & 0b11011, "mi/set_preserved", "set bits after mask");
    ensure_eq!(unmasked.to_bits() & 0b11011, code & 0b11011, "mi/set_preserved", "set bits after unmask");
    ensure_eq!(model::set_of_letter(masked.to_char() as u8), model::set_of_letter(ch), "mi/set_preserved_letters", "nucleotide set after mask");
    // in-place forms agree
    let mut x = s;
    x.mask();
    ensure!(x == masked, "mi/mask_inplace", "mask() != to_mask()");
    let mut y = s;
    y.unmask();
    ensure!(y == unmasked, "mi/unmask_inplace", "unmask() != to_unmask()");
    // commutes with complement
    let mut a = s;
    a.comp();
    a.mask();
    let mut b = s;
    b.mask();
    b.comp();
    ensure!(a == b, "mi/mask_comp_commute", "mask(comp({0})) = {a:?} but comp(mask({0})) = {b:?}", ch as char);
    let mut a = s;
    a.comp();
    a.unmask();
    let mut b = s;
    b.unmask();
    b.comp();
    ensure!(a == b, "mi/unmask_comp_commute", "unmask and comp do not commute on '{}'", ch as char);
    Ok(Pass::new(true))
}

fn md_symbol(pattern: &u8) -> PResult {
    // all 16 bit patterns, including the two alternative codes
    let sy = Syms::<MDnaC>::new()?;
    let m = sy.m;
    let canon = m.decode_bits(*pattern).unwrap();
    let s = no_panic("md/decode_panic", "masked::Dna::unsafe_from_bits", || MDnaC::unsafe_from_bits(*pattern))?;
    ensure_eq!(s.to_bits(), canon, "md/decode", "pattern {pattern:#06b} decodes to");
    let ch = m.ch(canon);
    let mut x = s;
    no_panic("md/mask_panic", "mask", || x.mask())?;
    let mut y = s;
    no_panic("md/unmask_panic", "unmask", || y.unmask())?;
    if let Some(t) = md_toggle(ch) {
        ensure_eq!(x.to_char(), t as char, "md/mask_case", "mask of '{}'", ch as char);
        ensure_eq!(y.to_char(), t as char, "md/unmask_case", "unmask of '{}'", ch as char);
    }
    // involutions on every symbol
    let mut xx = x;
    xx.mask();
    ensure!(xx == s, "md/mask_involution", "mask twice of '{}' gives {xx:?}", ch as char);
    let mut yy = y;
    yy.unmask();
    ensure!(yy == s, "md/unmask_involution", "unmask twice of '{}' gives {yy:?}", ch as char);
    // commutes with complement
    let mut a = s;
    a.comp();
    a.mask();
    let mut b = s;
    b.mask();
    b.comp();
    ensure!(a == b, "md/mask_comp_commute", "mask and comp do not commute on '{}'", ch as char);
    Ok(Pass::new(true).class_if(*pattern != canon, "alt_pattern"))
}

#[derive(Clone, Debug, Serialize, Deserialize)]
pub struct Case {
    pub codec: CodecId,
    pub s: SeqSpec,
}

fn seq_case<C: Cm + MaskableMut + ComplementMut>(case: &Case, mask_ch: fn(u8) -> u8, unmask_ch: fn(u8) -> u8) -> PResult {
    let sy = Syms::<C>::new()?;
    let m = sy.m;
    let n = C::ID.name();
    let codes = &case.s.codes;
    let chars: Vec<u8> = codes.iter().map(|&c| m.ch(c)).collect();
    let exp_mask: Vec<u8> = chars.iter().map(|&c| m.parse_byte(mask_ch(c)).unwrap()).collect();
    let exp_unmask: Vec<u8> = chars.iter().map(|&c| m.parse_byte(unmask_ch(c)).unwrap()).collect();
    let owned: Seq<C> = build(&sy, &case.s)?.into_seq();

    let tm = no_panic(&format!("to_mask_panic/{n}"), "Seq::to_mask", || owned.to_mask())?;
    check_content(&sy, &tm, &exp_mask, &format!("to_mask/{n}"))?;
    let tu = no_panic(&format!("to_unmask_panic/{n}"), "Seq::to_unmask", || owned.to_unmask())?;
    check_content(&sy, &tu, &exp_unmask, &format!("to_unmask/{n}"))?;
    check_symbols(&sy, &owned, codes, &format!("mask_receiver/{n}"))?;
    let mut a = owned.clone();
    no_panic(&format!("mask_panic/{n}"), "Seq::mask", || a.mask())?;
    ensure!(a == tm, format!("mask_inplace/{n}"), "mask() != to_mask()");
    let mut b = owned.clone();
    no_panic(&format!("unmask_panic/{n}"), "Seq::unmask", || b.unmask())?;
    ensure!(b == tu, format!("unmask_inplace/{n}"), "unmask() != to_unmask()");
    // commutes with reverse, complement, reverse-complement at sequence level
    ensure!(owned.to_rev().to_mask() == tm.to_rev(), format!("mask_rev_commute/{n}"), "mask(rev(s)) != rev(mask(s))");
    ensure!(owned.to_comp().to_mask() == tm.to_comp(), format!("mask_comp_commute/{n}"), "mask(comp(s)) != comp(mask(s))");
    ensure!(owned.to_revcomp().to_mask() == tm.to_revcomp(), format!("mask_revcomp_commute/{n}"), "mask(revcomp(s)) != revcomp(mask(s))");
    ensure!(owned.to_revcomp().to_unmask() == tu.to_revcomp(), format!("unmask_revcomp_commute/{n}"), "unmask(revcomp(s)) != revcomp(unmask(s))");
    // sequence-level algebra follows the symbol-level one
    let tmu = tm.to_unmask();
    let exp_tmu: Vec<u8> = exp_mask.iter().map(|&c| m.parse_byte(unmask_ch(m.ch(c))).unwrap()).collect();
    check_symbols(&sy, &tmu, &exp_tmu, &format!("unmask_after_mask/{n}"))?;
    let len = codes.len();
    let mixed = chars.iter().any(|c| c.is_ascii_lowercase()) && chars.iter().any(|c| c.is_ascii_uppercase());
    Ok(Pass::new(len >= 13 && mixed).class_if(sy.bits() == 5 && len >= 13, "straddling_5bit").class_if(case.s.repr.born_offset() > 0, "offset_born"))
}

#[derive(Clone, Debug, Serialize, Deserialize)]
pub struct RawCase {
    pub codec: CodecId,
    pub words: Vec<u64>,
    pub count: u16,
}

/// sequences rebuilt from arbitrary word images hold the alternative gap/pad encodings too:
/// masking is still position-wise on the *symbols*
fn raw_mask<C: Cm + MaskableMut>(case: &RawCase, mask_ch: fn(u8) -> Option<u8>, unmask_ch: fn(u8) -> Option<u8>) -> PResult {
    let n_ = C::ID.name();
    let m = C::ID.model();
    let bits = m.bits;
    let raw: Vec<usize> = case.words.iter().map(|w| *w as usize).collect();
    let cap = raw.len() * 64 / bits;
    let n = scale16(case.count, cap);
    let s = match Seq::<C>::from_raw(n, &raw) {
        Some(s) => s,
        None => fail!("harness", "from_raw({n}) refused"),
    };
    let chars: Vec<u8> = (0..n)
        .map(|i| {
            let p = (0..bits).fold(0u8, |acc, b| acc | ((model::bit_of(&case.words, i * bits + b) as u8) << b));
            m.ch(m.decode_bits(p).unwrap())
        })
        .collect();
    ensure_eq!(s.to_string().into_bytes(), chars.clone(), format!("raw_display/{n_}"), "display of a sequence rebuilt from a word image");
    let tm = no_panic(&format!("raw_to_mask_panic/{n_}"), "to_mask on a rebuilt sequence", || s.to_mask())?;
    let tu = no_panic(&format!("raw_to_unmask_panic/{n_}"), "to_unmask on a rebuilt sequence", || s.to_unmask())?;
    ensure_eq!(tm.len(), n, format!("raw_mask_len/{n_}"), "length after to_mask");
    ensure_eq!(tu.len(), n, format!("raw_mask_len/{n_}"), "length after to_unmask");
    let (dm, du) = (tm.to_string().into_bytes(), tu.to_string().into_bytes());
    let mut alt = false;
    for i in 0..n {
        let p = (0..bits).fold(0u8, |acc, b| acc | ((model::bit_of(&case.words, i * bits + b) as u8) << b));
        alt |= m.alts.iter().any(|a| a.0 == p);
        if let Some(e) = mask_ch(chars[i]) {
            ensure_eq!(dm[i] as char, e as char, format!("raw_mask/{n_}"), "position {i} ('{}', bit pattern {p:#b}) after to_mask", chars[i] as char);
        }
        if let Some(e) = unmask_ch(chars[i]) {
            ensure_eq!(du[i] as char, e as char, format!("raw_unmask/{n_}"), "position {i} ('{}', bit pattern {p:#b}) after to_unmask", chars[i] as char);
        }
    }
    check_symbols(&Syms::<C>::new()?, &s, &chars.iter().map(|c| m.parse_byte(*c).unwrap()).collect::<Vec<u8>>(), &format!("raw_receiver/{n_}"))?;
    Ok(Pass::new(n >= 13).class_if(alt, "alt_pattern_in_sequence"))
}

fn raw_dispatch(c: &RawCase) -> PResult {
    match c.codec {
        CodecId::MIupac => raw_mask::<MIupacC>(c, |x| Some(mi_mask(x)), |x| Some(mi_unmask(x))),
        CodecId::MDna => raw_mask::<MDnaC>(c, md_toggle, md_toggle),
        _ => fail!("harness", "not a masked codec"),
    }
}

fn md_toggle_total(ch: u8) -> u8 {
    md_toggle(ch).unwrap()
}

pub fn dispatch(case: &Case) -> PResult {
    match case.codec {
        CodecId::MIupac => seq_case::<MIupacC>(case, mi_mask, mi_unmask),
        CodecId::MDna => seq_case::<MDnaC>(case, md_toggle_total, md_toggle_total),
        _ => fail!("harness", "not a masked codec"),
    }
}

fn strat(id: CodecId, max: usize) -> BoxedStrategy<Case> {
    let m = id.model();
    // masked DNA sequences avoid '?' and '!', for which no case mapping is claimed
    let allowed: Vec<u8> = m.syms.iter().filter(|s| s.1 != b'?' && s.1 != b'!').map(|s| s.0).collect();
    (gen::owned_spec_raw(id, max), proptest::collection::vec(proptest::sample::select(allowed.clone()), 0..=4))
        .prop_map(move |(mut s, _)| {
            let a0 = allowed[0];
            for c in s.codes.iter_mut() {
                if !allowed.contains(c) {
                    *c = a0;
                }
            }
            Case { codec: id, s }
        })
        .boxed()
}

/// text of a user-defined soft-masked alphabet (see `custom::Soft`): mask = lower case, unmask = upper
/// case, the gap stays; position-wise, length-preserving
fn user_maskable<const W: u8>(text: &String) -> PResult {
    use crate::custom::Soft;
    let s: Seq<Soft<W>> = match Seq::try_from(text.as_str()) {
        Ok(s) => s,
        Err(e) => fail!("harness", "user-defined soft-masked text {text:?} refused: {e:?}"),
    };
    let lower = text.to_ascii_lowercase();
    let upper = text.to_ascii_uppercase();
    let tm = no_panic(&format!("user_mask_panic/{W}"), "to_mask", || s.to_mask())?;
    ensure_eq!(tm.to_string(), lower, format!("user_mask/{W}"), "to_mask of the user-defined {W}-bit soft-masked sequence {text}");
    let tu = no_panic(&format!("user_mask_panic/{W}"), "to_unmask", || s.to_unmask())?;
    ensure_eq!(tu.to_string(), upper, format!("user_unmask/{W}"), "to_unmask of the user-defined {W}-bit soft-masked sequence {text}");
    let mut x = s.clone();
    x.mask();
    x.unmask();
    ensure_eq!(x.to_string(), upper, format!("user_unmask_after_mask/{W}"), "unmask(mask(x)) of {text}");
    ensure_eq!(s.to_string(), *text, format!("user_receiver/{W}"), "receiver changed by to_mask/to_unmask");
    Ok(Pass::new(text.len() * W as usize > 64 && lower != upper))
}

fn user_maskable_subs(ctx: &mut Ctx) {
    let cases = ctx.cases(400, 10);
    ctx.forall("user_maskable/5", cases, "[ACGTNRYacgtnry-]{0,120}", user_maskable::<5>);
    ctx.forall("user_maskable/4", cases, "[ACGTNacgtn-]{0,120}", user_maskable::<4>);
}

pub fn run(ctx: &mut Ctx) {
    // Which soft-masked alphabet of a width is used first in the process is part of the history
    // (the driver runs one process per order): user-defined ones first, or the built-in ones first.
    if ctx.order == 1 {
        if matches!(ctx.mode, Mode::Replay { .. }) {
            let _ = user_maskable::<5>(&"ACGTNRYacgtnry-".to_string());
            let _ = user_maskable::<4>(&"ACGTNacgtn-".to_string());
        }
        user_maskable_subs(ctx);
    }
    ctx.each("masked_iupac_symbols", CodecId::MIupac.model().codes(), mi_symbol);
    ctx.each("masked_dna_patterns", (0..16u8).collect::<Vec<u8>>(), md_symbol);
    let max = ctx.pick(200, 2000);
    for id in [CodecId::MIupac, CodecId::MDna] {
        let cases = ctx.cases(6000, 10);
        ctx.forall(&format!("sequences/{}", id.name()), cases, strat(id, max), dispatch);
    }
    for id in [CodecId::MIupac, CodecId::MDna] {
        let lens = gen::long_lens_bits(id.bits(), ctx.thorough(), ctx.seed);
        let m = id.model();
        let allowed: Vec<u8> = m.syms.iter().filter(|s| s.1 != b'?' && s.1 != b'!').map(|s| s.0).collect();
        ctx.forall_lens(
            &format!("sequences_long/{}", id.name()),
            &lens,
            |n| {
                let allowed = allowed.clone();
                gen::owned_spec_n(id, n).prop_map(move |mut s| {
                    for c in s.codes.iter_mut() {
                        if !allowed.contains(c) {
                            *c = allowed[0];
                        }
                    }
                    Case { codec: id, s }
                })
            },
            dispatch,
        );
    }
    for id in [CodecId::MIupac, CodecId::MDna] {
        let cases = ctx.cases(1500, 10);
        // words made of repeated nibbles reach the alternative gap/pad encodings (0b0011, 0b0101) often
        let word = prop_oneof![
            4 => any::<u64>(),
            2 => proptest::collection::vec(proptest::sample::select(vec![3u64, 5, 12, 10, 0, 15, 8, 1, 6, 9]), 16).prop_map(|v| v.iter().enumerate().fold(0u64, |acc, (i, x)| acc | (x << (4 * i)))),
            1 => Just(0x3333_3333_3333_3333u64),
            1 => Just(0x5555_5555_5555_5555u64),
        ];
        let st = (proptest::collection::vec(word, 0..=5), any::<u16>()).prop_map(move |(words, count)| RawCase { codec: id, words, count });
        ctx.forall(&format!("raw_images/{}", id.name()), cases, st, raw_dispatch);
    }
    if ctx.order != 1 {
        user_maskable_subs(ctx);
    }
    ctx.require_class("alt_pattern_in_sequence");
    ctx.require_class("alt_pattern");
    ctx.require_class("straddling_5bit");
    ctx.require_class("offset_born");
}
