//! C01 — text <-> packed sequence round trip is lossless; bad input is rejected exactly.

use crate::codecs::*;
use crate::gen;
use crate::model::{CodecId, Model, ALL_CODECS};
use crate::obs::*;
use crate::oracle::*;
use bio_seq::prelude::*;
use proptest::collection::vec;
use proptest::prelude::*;
use proptest::sample::select;
use serde::{Deserialize, Serialize};
use std::str::FromStr;

#[derive(Clone, Debug, Serialize, Deserialize)]
pub struct Case {
    pub codec: CodecId,
    /// accepted bytes (one symbol each)
    pub body: Vec<u8>,
    /// injected refusals: (position selector, bytes of one offending character)
    pub bad: Vec<(u16, Vec<u8>)>,
}

impl Case {
    pub fn bytes(&self) -> Vec<u8> {
        let mut v = self.body.clone();
        for (pos, b) in &self.bad {
            let at = scale16(*pos, v.len());
            for (k, x) in b.iter().enumerate() {
                v.insert(at + k, *x);
            }
        }
        v
    }
}

/// one offending character: a refused byte from a named class, or a whole multi-byte scalar
pub fn bad_char(m: &'static Model) -> BoxedStrategy<Vec<u8>> {
    let refused = m.refused_bytes();
    let printable: Vec<u8> = refused.iter().copied().filter(|b| b.is_ascii_graphic()).collect();
    let twins: Vec<u8> = m
        .accepted_bytes()
        .iter()
        .map(|b| if b.is_ascii_lowercase() { b.to_ascii_uppercase() } else { b.to_ascii_lowercase() })
        .filter(|b| refused.contains(b))
        .collect();
    let ctrl: Vec<u8> = [0u8, b'\n', b'\r', b'\t', b' ', 0x7f].iter().copied().filter(|b| refused.contains(b)).collect();
    let high: Vec<u8> = refused.iter().copied().filter(|b| *b >= 0x80).collect();
    let near: Vec<u8> = m.accepted_bytes().iter().flat_map(|b| [b.wrapping_add(1), b.wrapping_sub(1), b ^ 0x80, b ^ 0x40]).filter(|b| refused.contains(b)).collect();
    let mut opts: Vec<(u32, BoxedStrategy<Vec<u8>>)> = vec![];
    opts.push((4, select(printable).prop_map(|b| vec![b]).boxed()));
    if !twins.is_empty() {
        opts.push((3, select(twins).prop_map(|b| vec![b]).boxed()));
    }
    opts.push((2, select(ctrl).prop_map(|b| vec![b]).boxed()));
    opts.push((2, select(high).prop_map(|b| vec![b]).boxed()));
    if !near.is_empty() {
        opts.push((2, select(near).prop_map(|b| vec![b]).boxed()));
    }
    opts.push((2, select(vec!["é", "Ä", "€", "😀", "Ａ", "\u{0410}"]).prop_map(|s| s.as_bytes().to_vec()).boxed()));
    proptest::strategy::Union::new_weighted(opts).boxed()
}

pub fn body(m: &'static Model, max: usize) -> BoxedStrategy<Vec<u8>> {
    let acc = m.accepted_bytes();
    let lo = acc[0];
    let hi = *acc.last().unwrap();
    gen::len_strategy(m.bits, max)
        .prop_flat_map(move |n| {
            let acc = acc.clone();
            prop_oneof![
                8 => vec(select(acc), n),
                1 => Just(vec![lo; n]),
                1 => Just(vec![hi; n]),
            ]
        })
        .boxed()
}

fn case_strategy(id: CodecId, max: usize) -> BoxedStrategy<Case> {
    let m = id.model();
    (body(m, max), prop_oneof![3 => Just(0usize), 3 => Just(1usize), 1 => Just(2usize), 1 => Just(3usize)])
        .prop_flat_map(move |(body, nbad)| (Just(body), vec((any::<u16>(), bad_char(m)), nbad)))
        .prop_map(move |(body, bad)| Case { codec: id, body, bad })
        .boxed()
}

fn err_byte<T>(r: &Result<T, ParseBioError>) -> Option<Option<u8>> {
    match r {
        Ok(_) => None,
        Err(ParseBioError::UnrecognisedBase(b)) => Some(Some(*b)),
        Err(_) => Some(None),
    }
}

fn check<C: Cm>(case: &Case) -> PResult {
    let sy = Syms::<C>::new()?;
    let m = sy.m;
    let n = C::ID.name();
    let bytes = case.bytes();
    let expected = m.parse(&bytes);
    let utf8 = std::str::from_utf8(&bytes).ok();

    // every entry point
    let mut results: Vec<(&'static str, Result<Seq<C>, ParseBioError>)> = vec![];
    results.push(("TryFrom<&[u8]>", no_panic("entry_panic", "Seq::try_from(&[u8])", || Seq::<C>::try_from(&bytes[..]))?));
    results.push(("TryFrom<Vec<u8>>", no_panic("entry_panic", "Seq::try_from(Vec<u8>)", || Seq::<C>::try_from(bytes.clone()))?));
    if let Some(s) = utf8 {
        let owned: String = s.to_string();
        results.push(("TryFrom<&str>", no_panic("entry_panic", "Seq::try_from(&str)", || Seq::<C>::try_from(s))?));
        results.push(("TryFrom<String>", no_panic("entry_panic", "Seq::try_from(String)", || Seq::<C>::try_from(owned.clone()))?));
        results.push(("TryFrom<&String>", no_panic("entry_panic", "Seq::try_from(&String)", || Seq::<C>::try_from(&owned))?));
        results.push(("FromStr", no_panic("entry_panic", "Seq::from_str", || Seq::<C>::from_str(s))?));
        results.push(("str::parse", no_panic("entry_panic", "str::parse", || s.parse::<Seq<C>>())?));
    }

    match &expected {
        Err(first_bad) => {
            for (name, r) in &results {
                match err_byte(r) {
                    None => fail!(format!("accepts_invalid/{n}"), "{name} accepted {:?}, whose byte {first_bad:#04x} is not a symbol; got {}", String::from_utf8_lossy(&bytes), r.as_ref().unwrap()),
                    Some(Some(b)) => ensure!(b == *first_bad, format!("wrong_byte/{n}"), "{name} on {:?} reported byte {b:#04x}, the first non-symbol byte is {first_bad:#04x}", String::from_utf8_lossy(&bytes)),
                    Some(None) => fail!(format!("wrong_error/{n}"), "{name} returned {:?} instead of UnrecognisedBase", r.as_ref().err()),
                }
            }
            let pos = bytes.iter().position(|b| m.parse_byte(*b).is_none()).unwrap();
            Ok(Pass::new(pos >= 1).class("invalid").class_if(pos >= 1, "invalid_not_first").class_if(bytes.iter().any(|b| *b >= 0x80), "non_ascii"))
        }
        Ok(codes) => {
            let text = sy.text(codes);
            for (name, r) in &results {
                let s = match r {
                    Ok(s) => s,
                    Err(e) => fail!(format!("rejects_valid/{n}"), "{name} rejected valid input {:?}: {e:?}", String::from_utf8_lossy(&bytes)),
                };
                check_content(&sy, s, codes, &format!("parsed/{n}")).map_err(|f| Fail { site: f.site, msg: format!("{name} on {:?}: {}", String::from_utf8_lossy(&bytes), f.msg) })?;
                if codes.len() <= 300 {
                    for (i, c) in codes.iter().enumerate() {
                        let a = no_panic(&format!("parsed/{n}/nth_panic"), "nth", || s.nth(i))?;
                        ensure_eq!(a.to_bits(), *c, format!("parsed/{n}/nth"), "{name}: nth({i})");
                    }
                }
            }
            let s = results[0].1.as_ref().unwrap();
            // display forms agree
            ensure_eq!(String::from(s), text, format!("string_from/{n}"), "String::from(&Seq)");
            ensure_eq!(String::from(s.clone()), text, format!("string_from/{n}"), "String::from(Seq)");
            ensure_eq!(String::from(&s[..]), text, format!("string_from/{n}"), "String::from(&SeqSlice)");
            ensure_eq!(format!("{}", &s[..]), text, format!("string_from/{n}"), "Display for SeqSlice");
            // display -> parse -> display is the identity
            let again = match Seq::<C>::from_str(&text) {
                Ok(a) => a,
                Err(e) => fail!(format!("reparse/{n}"), "parsing the displayed text {text:?} failed: {e:?}"),
            };
            ensure!(&again == s, format!("reparse/{n}"), "parse(display(s)) != s for {text:?}: {again}");
            ensure_eq!(again.to_string(), text, format!("reparse/{n}"), "display(parse(display(s)))");
            // iterator-based construction agrees
            let syms = sy.vec(codes);
            let collected: Seq<C> = syms.iter().copied().collect();
            check_symbols(&sy, &collected, codes, &format!("collect/{n}"))?;
            ensure!(&collected == s, format!("collect/{n}"), "collect() != parsed for {text:?}");
            let fv = Seq::<C>::from(&syms);
            check_symbols(&sy, &fv, codes, &format!("from_vec/{n}"))?;
            let mut ext = Seq::<C>::new();
            Extend::extend(&mut ext, syms.iter().copied());
            check_symbols(&sy, &ext, codes, &format!("extend_trait/{n}"))?;
            let mut ext2 = Seq::<C>::with_capacity(3);
            ext2.extend(syms.iter().copied());
            check_symbols(&sy, &ext2, codes, &format!("extend/{n}"))?;
            // iterators whose size_hint is not exact (adaptors that drop items, unknown upper bounds)
            let drop = codes.first().copied().unwrap_or(m.codes()[0]);
            let kept: Vec<u8> = codes.iter().copied().filter(|c| *c != drop).collect();
            let f1: Seq<C> = syms.iter().copied().filter(|s| s.to_bits() != drop).collect();
            check_symbols(&sy, &f1, &kept, &format!("collect_filter/{n}"))?;
            let f2: Seq<C> = bytes.iter().filter_map(|b| C::try_from_ascii(*b)).collect();
            check_symbols(&sy, &f2, codes, &format!("collect_filter_map/{n}"))?;
            let cut = codes.iter().position(|c| *c != drop).unwrap_or(codes.len());
            let f3: Seq<C> = syms.iter().copied().skip_while(|s| s.to_bits() == drop).collect();
            check_symbols(&sy, &f3, &codes[cut..], &format!("collect_skip_while/{n}"))?;
            let f4: Seq<C> = syms.iter().copied().take_while(|s| s.to_bits() == drop).collect();
            check_symbols(&sy, &f4, &codes[..cut], &format!("collect_take_while/{n}"))?;
            let f5: Seq<C> = syms.chunks(3).flat_map(|c| c.iter().copied()).collect();
            check_symbols(&sy, &f5, codes, &format!("collect_flat_map/{n}"))?;
            // iterators whose size_hint lower bound is positive but below what they yield
            let half = syms.len() / 2;
            let mut want: Vec<u8> = codes[..half].to_vec();
            want.extend(codes[half..].iter().copied().filter(|c| *c != drop));
            let f6: Seq<C> = syms[..half].iter().copied().chain(syms[half..].iter().copied().filter(|s| s.to_bits() != drop)).collect();
            check_symbols(&sy, &f6, &want, &format!("collect_chain_exact_filter/{n}"))?;
            let mut want: Vec<u8> = codes[..half].iter().copied().filter(|c| *c != drop).collect();
            want.extend_from_slice(&codes[half..]);
            let f7: Seq<C> = syms[..half].iter().copied().filter(|s| s.to_bits() != drop).chain(syms[half..].iter().copied()).collect();
            check_symbols(&sy, &f7, &want, &format!("collect_chain_filter_exact/{n}"))?;
            let mut pk = syms.iter().copied().filter(|s| s.to_bits() != drop).peekable();
            let _ = pk.peek();
            let f8: Seq<C> = pk.collect();
            check_symbols(&sy, &f8, &kept, &format!("collect_peeked_filter/{n}"))?;
            let mut k = 0usize;
            let f9: Seq<C> = std::iter::successors(syms.first().copied(), |_| { k += 1; syms.get(k).copied() }).collect();
            check_symbols(&sy, &f9, codes, &format!("collect_successors/{n}"))?;
            let mut e3 = Seq::<C>::new();
            e3.extend(syms.iter().copied().filter(|s| s.to_bits() != drop));
            e3.extend(syms.iter().copied().filter(|s| s.to_bits() == drop));
            let mut both = kept.clone();
            both.extend(codes.iter().copied().filter(|c| *c == drop));
            check_symbols(&sy, &e3, &both, &format!("extend_filter/{n}"))?;
            let mut e4 = Seq::<C>::new();
            Extend::extend(&mut e4, syms.iter().copied().step_by(2));
            let stepped: Vec<u8> = codes.iter().copied().step_by(2).collect();
            check_symbols(&sy, &e4, &stepped, &format!("extend_step_by/{n}"))?;
            let mut pushed = Seq::<C>::default();
            for x in &syms {
                pushed.push(*x);
            }
            check_symbols(&sy, &pushed, codes, &format!("push/{n}"))?;
            let distinct = {
                let mut d = codes.clone();
                d.sort();
                d.dedup();
                d.len()
            };
            let nt = codes.len() * m.bits > 64 && distinct >= 2;
            Ok(Pass::new(nt).class("valid").class_if(codes.is_empty(), "empty").class_if(codes.len() * m.bits > 64, "multiword"))
        }
    }
}

pub fn dispatch(case: &Case) -> PResult {
    with_codec!(case.codec, C, check::<C>(case))
}

pub fn run(ctx: &mut Ctx) {
    let max = ctx.pick(200, 2000);
    for id in ALL_CODECS {
        let cases = ctx.cases(3000, 15);
        ctx.forall(&format!("parse/{}", id.name()), cases, case_strategy(id, max), dispatch);
    }
    // long inputs: thresholds at which bulk / block paths would switch on
    for id in ALL_CODECS {
        let m = id.model();
        let lens = gen::long_lens_bits(id.bits(), ctx.thorough(), ctx.seed);
        let acc = m.accepted_bytes();
        ctx.forall_lens(
            &format!("parse_long/{}", id.name()),
            &lens,
            |n| {
                let acc = acc.clone();
                (vec(select(acc), n), prop_oneof![3 => Just(0usize), 1 => Just(1usize), 2 => Just(2usize)]).prop_flat_map(move |(body, nbad)| (Just(body), vec((any::<u16>(), bad_char(m)), nbad))).prop_map(move |(body, bad)| Case { codec: id, body, bad })
            },
            dispatch,
        );
        // chromosome-sized text (just over 1 MiB) holding two different offending characters: the
        // first one in input order is the one to report, whatever their byte values
        if [CodecId::Dna, CodecId::Amino, CodecId::Oct].contains(&id) {
            let acc = m.accepted_bytes();
            ctx.forall_lens(
                &format!("parse_huge/{}", id.name()),
                &[(1usize << 20) + 3 + (ctx.seed % 5) as usize],
                |n| {
                    let acc = acc.clone();
                    (vec(select(acc), n), vec((any::<u16>(), bad_char(m)), 2)).prop_map(move |(body, bad)| Case { codec: id, body, bad })
                },
                dispatch,
            );
        }
    }
    // every single byte as a one-symbol string, and behind / in front of one valid symbol (exhaustive)
    let cells: Vec<Case> = ALL_CODECS
        .iter()
        .flat_map(|&id| {
            let first = id.model().accepted_bytes()[0];
            (0..=255u8).flat_map(move |b| {
                vec![
                    Case { codec: id, body: vec![b], bad: vec![] },
                    Case { codec: id, body: vec![first, b], bad: vec![] },
                    Case { codec: id, body: vec![b, first], bad: vec![] },
                ]
            })
        })
        .collect();
    ctx.each("single_bytes", cells, dispatch);
    ctx.require_class("invalid_not_first");
    ctx.require_class("non_ascii");
    ctx.require_class("multiword");
    ctx.require_class("empty");
}
