//! C09 — k-mer operations agree with the same operation on the equivalent sequence.

use crate::gen;
use crate::kmers::*;
use crate::model::{self, CodecId, ALL_CODECS};
use crate::obs::*;
use proptest::prelude::*;
use proptest::sample::select;
use serde::{Deserialize, Serialize};

#[derive(Clone, Debug, Serialize, Deserialize)]
pub struct Case {
    pub codec: CodecId,
    pub st: St,
    pub k: usize,
    pub codes: Vec<u8>,
    pub rot: u32,
    pub sym: u8,
}

/// the result must be the canonical k-mer of the expected symbols: same display, same integer
/// (so below 2^(K*BITS)), same hash stream as a k-mer built from those symbols
fn expect(id: CodecId, st: St, k: usize, got: &KInfo, exp: &[u8], site: &str, what: &str) -> R<()> {
    let m = id.model();
    ensure_eq!(got.display, m.text(exp), format!("{site}/display"), "{what}: symbols");
    let packed = model::pack_u128(exp, m.bits);
    if k * m.bits < st.bits() {
        ensure!(got.bs < (1u128 << (k * m.bits)), format!("{site}/canonical"), "{what}: storage integer {:#x} is not below 2^{} (garbage above the live bits)", got.bs, k * m.bits);
    }
    ensure_eq!(got.bs, packed, format!("{site}/bits"), "{what}: storage integer");
    Ok(())
}

fn check(case: &Case) -> PResult {
    let (id, st, k) = (case.codec, case.st, case.k);
    let m = id.model();
    let codes = &case.codes;
    ensure!(codes.len() == k, "harness", "case has {} codes for K={k}", codes.len());
    let tag = format!("{}/{}", id.name(), st.name());
    let name = format!("Kmer<{},{k},{}> {}", id.name(), st.name(), m.text(codes));
    let n = case.rot;
    let r = (n as usize) % k;
    // rotations
    let mut left = codes.clone();
    left.rotate_left(r);
    let got = no_panic(&format!("rotated_left_panic/{tag}"), &format!("{name}.rotated_left({n})"), || kcall(id, k, st, &KReq::Rot(codes.clone(), true, n)))?;
    expect(id, st, k, &want_info(got, "rotated_left")?, &left, &format!("rotated_left/{tag}"), &format!("{name}.rotated_left({n})"))?;
    let mut right = codes.clone();
    right.rotate_right(r);
    let got = no_panic(&format!("rotated_right_panic/{tag}"), &format!("{name}.rotated_right({n})"), || kcall(id, k, st, &KReq::Rot(codes.clone(), false, n)))?;
    expect(id, st, k, &want_info(got, "rotated_right")?, &right, &format!("rotated_right/{tag}"), &format!("{name}.rotated_right({n})"))?;
    // pushes: pushr appends at the end and drops the first; pushl prepends and drops the last
    let s = if m.codes().contains(&case.sym) { case.sym } else { m.codes()[0] };
    let mut pr = codes[1..].to_vec();
    pr.push(s);
    let got = no_panic(&format!("pushr_panic/{tag}"), &format!("{name}.pushr({})", m.ch(s) as char), || kcall(id, k, st, &KReq::Push(codes.clone(), false, s)))?;
    expect(id, st, k, &want_info(got, "pushr")?, &pr, &format!("pushr/{tag}"), &format!("{name}.pushr({})", m.ch(s) as char))?;
    let mut pl = vec![s];
    pl.extend_from_slice(&codes[..k - 1]);
    let got = no_panic(&format!("pushl_panic/{tag}"), &format!("{name}.pushl({})", m.ch(s) as char), || kcall(id, k, st, &KReq::Push(codes.clone(), true, s)))?;
    expect(id, st, k, &want_info(got, "pushl")?, &pl, &format!("pushl/{tag}"), &format!("{name}.pushl({})", m.ch(s) as char))?;

    if st == St::Usize {
        // reverse, every codec
        let exp = model::rev(codes);
        let got = no_panic(&format!("rev_panic/{tag}"), &format!("{name}.to_rev()"), || kcall_usize(id, k, &UReq::Rev(codes.clone())))?;
        match got {
            Some(Ok(URes::Rev(t, inplace, recv))) => {
                expect(id, st, k, &t, &exp, &format!("to_rev/{tag}"), &format!("{name}.to_rev()"))?;
                expect(id, st, k, &inplace, &exp, &format!("rev/{tag}"), &format!("{name}.rev()"))?;
                expect(id, st, k, &recv, codes, &format!("to_rev_receiver/{tag}"), &format!("{name} after to_rev()"))?;
            }
            Some(Err(f)) => return Err(f),
            other => fail!("harness/dispatch", "rev: {other:?}"),
        }
        if id == CodecId::Dna {
            let comp = m.comp_seq(codes);
            let rc = model::rev(&comp);
            let got = no_panic(&format!("comp_panic/{tag}"), &format!("{name} complement / reverse complement"), || kcall_dna(k, codes))?;
            match got {
                Some(Ok(d)) => {
                    expect(id, st, k, &d.to_comp, &comp, &format!("to_comp/{tag}"), &format!("{name}.to_comp()"))?;
                    expect(id, st, k, &d.comp, &comp, &format!("comp/{tag}"), &format!("{name}.comp()"))?;
                    expect(id, st, k, &d.to_revcomp, &rc, &format!("to_revcomp/{tag}"), &format!("{name}.to_revcomp()"))?;
                    expect(id, st, k, &d.revcomp, &rc, &format!("revcomp/{tag}"), &format!("{name}.revcomp()"))?;
                    expect(id, st, k, &d.revcomp_twice, codes, &format!("revcomp_involution/{tag}"), &format!("{name}.to_revcomp().to_revcomp()"))?;
                    expect(id, st, k, &d.receiver, codes, &format!("comp_receiver/{tag}"), &format!("{name} after to_comp()/to_revcomp()"))?;
                    // canonical form: min(k, rc k) is the same for k and rc k
                    let canon = if model::colex_cmp(codes, &rc) == std::cmp::Ordering::Greater { rc.clone() } else { codes.clone() };
                    expect(id, st, k, &d.canon, &canon, &format!("canonical/{tag}"), &format!("min({name}, revcomp)"))?;
                    ensure!(d.canon == d.canon_of_rc, format!("canonical_symmetric/{tag}"), "min(k, rc k) != min(rc k, rc rc k) for {name}");
                }
                Some(Err(f)) => return Err(f),
                None => fail!("harness/dispatch", "dna ops for K={k}"),
            }
        }
    }
    let full = k * m.bits == st.bits();
    let straddle = st == St::U128 && (0..k).any(|i| (i * m.bits) / 64 != (i * m.bits + m.bits - 1) / 64);
    let nt = full || straddle || n as usize >= k || (st == St::Usize && m.bits != 2);
    Ok(Pass::new(nt)
        .class_if(full, "full_width")
        .class_if(straddle, "symbol_straddles_u128_words")
        .class_if(n as usize >= k, "rotation_ge_k")
        .class_if(n > 65535, "rotation_gt_u16")
        .class_if(n as u64 * m.bits as u64 > u32::MAX as u64, "rotation_bits_overflow_u32")
        .class_if(st == St::Usize && m.bits != 2, "non_2bit_reverse")
        .class_if(id == CodecId::Dna && st == St::Usize && k == 32, "dna32_complement"))
}

fn strat(id: CodecId, st: St, ks: Vec<usize>) -> BoxedStrategy<Case> {
    let m = id.model();
    select(ks)
        .prop_flat_map(move |k| {
            let kk = k as u32;
            let rots = prop_oneof![
                6 => select(vec![0, 1, kk.saturating_sub(1), kk, kk + 1, 2 * kk, 3 * kk + 1, 65535, 65536, 65537, u32::MAX, u32::MAX - 1, 1 << 31, (1 << 31) + 1, 800_000_000, 1_431_655_766, 3_000_000_001]),
                3 => any::<u32>(),
                2 => 0..200u32,
            ];
            (Just(k), gen::codes_n(m, k), rots, gen::code(m))
        })
        .prop_map(move |(k, codes, rot, sym)| Case { codec: id, st, k, codes, rot, sym })
        .boxed()
}

pub fn run(ctx: &mut Ctx) {
    let types = ktypes();
    for id in ALL_CODECS {
        for st in ALL_ST {
            let ks: Vec<usize> = types.iter().filter(|t| t.0 == id && t.1 == st).map(|t| t.2).collect();
            if ks.is_empty() {
                continue;
            }
            let cases = ctx.cases((ks.len() * 100) as u32, 10);
            ctx.forall(&format!("ops/{}/{}", id.name(), st.name()), cases, strat(id, st, ks), check);
        }
    }
    // exhaustive: all k-mers of the small types x rotations 0..=K+1 (pushed symbol cycles through the alphabet)
    let limit = ctx.pick(8, 12);
    let mut cells = vec![];
    for (id, st, k) in &types {
        let m = id.model();
        if k * m.bits > limit || m.nsyms().pow(*k as u32) > 5000 {
            continue;
        }
        let ns = m.nsyms();
        let total = ns.pow(*k as u32);
        for mut x in 0..total {
            let mut codes = vec![];
            for _ in 0..*k {
                codes.push(m.codes()[x % ns]);
                x /= ns;
            }
            for rot in 0..=(*k as u32 + 1) {
                let sym = m.codes()[(rot as usize + codes[0] as usize) % ns];
                cells.push(Case { codec: *id, st: *st, k: *k, codes: codes.clone(), rot, sym });
            }
        }
    }
    ctx.each("all_small_kmers", cells, check);
    // every type once with each boundary pattern and a huge rotation count
    let mut cells = vec![];
    for (id, st, k) in &types {
        let m = id.model();
        let lo = *m.codes().iter().min().unwrap();
        let hi = *m.codes().iter().max().unwrap();
        for (j, pat) in [vec![lo; *k], vec![hi; *k], (0..*k).map(|i| if i % 2 == 0 { hi } else { lo }).collect::<Vec<u8>>(), (0..*k).map(|i| m.codes()[(i * 5 + 1) % m.nsyms()]).collect()].into_iter().enumerate() {
            cells.push(Case { codec: *id, st: *st, k: *k, codes: pat, rot: [u32::MAX, 65537, *k as u32, 1][j], sym: if j % 2 == 0 { hi } else { lo } });
        }
    }
    ctx.each("all_types_boundary", cells, check);
    ctx.require_class("full_width");
    ctx.require_class("symbol_straddles_u128_words");
    ctx.require_class("rotation_gt_u16");
    ctx.require_class("rotation_bits_overflow_u32");
    ctx.require_class("non_2bit_reverse");
    ctx.require_class("dna32_complement");
}
