//! C06 — editing an owned sequence behaves like editing a list of symbols.

use crate::codecs::*;
use crate::gen;
use crate::model::{self, CodecId, ALL_CODECS};
use crate::obs::*;
use crate::oracle::*;
use bio_seq::prelude::*;
use proptest::collection::vec;
use proptest::prelude::*;
use serde::{Deserialize, Serialize};
use std::ops::Bound;

#[derive(Clone, Debug, Serialize, Deserialize)]
pub enum Arg {
    /// a window of an independent sequence
    Other(SeqSpec),
    /// a window [a, b) (scaled) of a clone of the target itself
    SelfWindow { a: u16, b: u16 },
}

#[derive(Clone, Debug, Serialize, Deserialize)]
pub enum Op {
    Push(u8),
    ExtendInherent(Vec<u8>),
    ExtendTrait(Vec<u8>),
    /// `extend(vec.into_iter().filter(..))`: an iterator whose size_hint upper bound exceeds what it yields;
    /// symbols equal to the code are dropped; `via_trait` selects `Extend::extend`
    ExtendFiltered(Vec<u8>, u8, bool),
    /// `extend` from an iterator whose size_hint lower bound is positive but smaller than what it
    /// yields: 0 exact.chain(filtered), 1 filtered.chain(exact), 2 a peeked filter, 3 `successors`
    /// (+4: through the `Extend` trait)
    ExtendChained(Vec<u8>, Vec<u8>, u8, u8),
    Append(Arg),
    Prepend(Arg),
    Insert(u16, Arg),
    /// form 0: s..e 1: s..=e 2: ..e 3: ..=e 4: s.. 5: .. 6: (Excl,Incl) 7: (Excl,Excl) 8: (Excl,Unbounded)
    Remove { form: u8, a: u16, b: u16 },
    /// scaled into 0..=len
    Truncate(u16),
    Clear,
    SnapClone,
    SnapToOwned { a: u16, b: u16 },
    RevInPlace,
}

#[derive(Clone, Debug, Serialize, Deserialize)]
pub struct Case {
    pub codec: CodecId,
    pub start: SeqSpec,
    pub ops: Vec<Op>,
}

fn window(a: u16, b: u16, len: usize) -> (usize, usize) {
    let s = scale16(a, len);
    let e = s + scale16(b, len - s);
    (s, e)
}

fn do_remove<C: Cm>(t: &mut Seq<C>, form: u8, s: usize, e: usize, len: usize) -> (u8, usize, usize) {
    // returns the (form actually used, s, e) after adapting to what the form can express
    match form % 9 {
        1 if e > s => {
            t.remove(s..=e - 1);
            (1, s, e)
        }
        2 => {
            t.remove(..e);
            (2, 0, e)
        }
        3 if e > 0 => {
            t.remove(..=e - 1);
            (3, 0, e)
        }
        4 => {
            t.remove(s..);
            (4, s, len)
        }
        5 => {
            t.remove(..);
            (5, 0, len)
        }
        6 if s >= 1 => {
            t.remove((Bound::Excluded(s - 1), Bound::Included(e - 1)));
            (6, s, e)
        }
        7 if s >= 1 => {
            t.remove((Bound::Excluded(s - 1), Bound::Excluded(e)));
            (7, s, e)
        }
        8 if s >= 1 => {
            t.remove((Bound::Excluded(s - 1), Bound::Unbounded));
            (8, s, len)
        }
        _ => {
            t.remove(s..e);
            (0, s, e)
        }
    }
}

fn check<C: Cm>(case: &Case) -> PResult {
    let sy = Syms::<C>::new()?;
    let n = C::ID.name();
    let bits = sy.bits();
    let m = sy.m;
    let mut target: Seq<C> = build(&sy, &case.start)?.into_seq();
    let mut model: Vec<u8> = case.start.codes.clone();
    check_content(&sy, &target, &model, &format!("start/{n}"))?;
    let mut snaps: Vec<(Seq<C>, Vec<u8>, &'static str)> = vec![];
    let mut edits = 0;
    let mut unaligned_edit = false;
    let mut crossed = false;
    let mut self_arg = false;
    let words = |l: usize| (l * bits).div_ceil(64);

    for (step, op) in case.ops.iter().enumerate() {
        let len0 = model.len();
        let before_words = words(len0);
        // materialise the argument first (it may borrow a clone of the target)
        let mut arg_holder: Option<Built<C>> = None;
        let mut arg_codes: Vec<u8> = vec![];
        let mut arg_self: Option<(Seq<C>, usize, usize)> = None;
        if let Op::Append(a) | Op::Prepend(a) | Op::Insert(_, a) = op {
            match a {
                Arg::Other(spec) => {
                    arg_codes = spec.codes.clone();
                    arg_holder = Some(build(&sy, spec)?);
                }
                Arg::SelfWindow { a, b } => {
                    let (s, e) = window(*a, *b, len0);
                    arg_codes = model[s..e].to_vec();
                    arg_self = Some((target.clone(), s, e));
                    self_arg = true;
                }
            }
        }
        let arg_slice: Option<&SeqSlice<C>> = match (&arg_holder, &arg_self) {
            (Some(b), _) => Some(b.slice()),
            (_, Some((c, s, e))) => Some(&c[*s..*e]),
            _ => None,
        };
        let desc: String;
        let r = match op {
            Op::Push(c) => {
                let c = if m.codes().contains(c) { *c } else { m.codes()[0] };
                desc = format!("push({})", m.ch(c) as char);
                model.push(c);
                edits += 1;
                unaligned_edit |= (len0 * bits) % 64 != 0;
                no_panic(&format!("push_panic/{n}"), &desc, || target.push(sy.sym(c)))
            }
            Op::ExtendInherent(v) => {
                let v: Vec<u8> = v.iter().map(|c| if m.codes().contains(c) { *c } else { m.codes()[0] }).collect();
                desc = format!("extend({} symbols)", v.len());
                model.extend_from_slice(&v);
                edits += 1;
                unaligned_edit |= (len0 * bits) % 64 != 0;
                no_panic(&format!("extend_panic/{n}"), &desc, || target.extend(sy.vec(&v)))
            }
            Op::ExtendTrait(v) => {
                let v: Vec<u8> = v.iter().map(|c| if m.codes().contains(c) { *c } else { m.codes()[0] }).collect();
                desc = format!("Extend::extend({} symbols)", v.len());
                model.extend_from_slice(&v);
                edits += 1;
                no_panic(&format!("extend_panic/{n}"), &desc, || Extend::extend(&mut target, sy.vec(&v)))
            }
            Op::ExtendFiltered(v, drop, via_trait) => {
                let v: Vec<u8> = v.iter().map(|c| if m.codes().contains(c) { *c } else { m.codes()[0] }).collect();
                let kept: Vec<u8> = v.iter().copied().filter(|c| c != drop).collect();
                desc = format!("extend({} symbols through filter keeping {})", v.len(), kept.len());
                model.extend_from_slice(&kept);
                edits += 1;
                let d = *drop;
                if *via_trait {
                    no_panic(&format!("extend_panic/{n}"), &desc, || Extend::extend(&mut target, sy.vec(&v).into_iter().filter(move |s| s.to_bits() != d)))
                } else {
                    no_panic(&format!("extend_panic/{n}"), &desc, || target.extend(sy.vec(&v).into_iter().filter(move |s| s.to_bits() != d)))
                }
            }
            Op::ExtendChained(v, w, drop, shape) => {
                let fix = |v: &Vec<u8>| -> Vec<u8> { v.iter().map(|c| if m.codes().contains(c) { *c } else { m.codes()[0] }).collect() };
                let (v, w) = (fix(v), fix(w));
                let d = *drop;
                let keep = move |s: &C| s.to_bits() != d;
                let (sv, sw) = (sy.vec(&v), sy.vec(&w));
                let (items, it): (Vec<u8>, Box<dyn Iterator<Item = C>>) = match shape % 4 {
                    0 => (v.iter().copied().chain(w.iter().copied().filter(|c| *c != d)).collect(), Box::new(sv.into_iter().chain(sw.into_iter().filter(keep)))),
                    1 => (v.iter().copied().filter(|c| *c != d).chain(w.iter().copied()).collect(), Box::new(sv.into_iter().filter(keep).chain(sw.into_iter()))),
                    2 => {
                        let mut pk = sv.into_iter().chain(sw.into_iter()).filter(keep).peekable();
                        let _ = pk.peek();
                        (v.iter().chain(w.iter()).copied().filter(|c| *c != d).collect(), Box::new(pk))
                    }
                    _ => {
                        let all: Vec<C> = sv.into_iter().chain(sw.into_iter()).collect();
                        let mut k = 0usize;
                        let first = all.first().copied();
                        (v.iter().chain(w.iter()).copied().collect(), Box::new(std::iter::successors(first, move |_| { k += 1; all.get(k).copied() })))
                    }
                };
                desc = format!("extend(iterator shape {} yielding {} symbols, size_hint {:?})", shape % 4, items.len(), it.size_hint());
                model.extend_from_slice(&items);
                edits += 1;
                if shape & 4 != 0 {
                    no_panic(&format!("extend_panic/{n}"), &desc, || Extend::extend(&mut target, it))
                } else {
                    no_panic(&format!("extend_panic/{n}"), &desc, || target.extend(it))
                }
            }
            Op::Append(_) => {
                desc = format!("append({} symbols)", arg_codes.len());
                model.extend_from_slice(&arg_codes);
                edits += 1;
                unaligned_edit |= (len0 * bits) % 64 != 0;
                no_panic(&format!("append_panic/{n}"), &desc, || target.append(arg_slice.unwrap()))
            }
            Op::Prepend(_) => {
                desc = format!("prepend({} symbols)", arg_codes.len());
                let mut nm = arg_codes.clone();
                nm.extend_from_slice(&model);
                model = nm;
                edits += 1;
                unaligned_edit |= (arg_codes.len() * bits) % 64 != 0;
                no_panic(&format!("prepend_panic/{n}"), &desc, || target.prepend(arg_slice.unwrap()))
            }
            Op::Insert(pos, _) => {
                let p = scale16(*pos, len0);
                desc = format!("insert({p}, {} symbols) on length {len0}", arg_codes.len());
                let tail = model.split_off(p);
                model.extend_from_slice(&arg_codes);
                model.extend_from_slice(&tail);
                edits += 1;
                unaligned_edit |= (p * bits) % 64 != 0;
                no_panic(&format!("insert_panic/{n}"), &desc, || target.insert(p, arg_slice.unwrap()))
            }
            Op::Remove { form, a, b } => {
                let (s, e) = window(*a, *b, len0);
                let mut used = (0u8, s, e);
                let r = no_panic(&format!("remove_panic/{n}"), &format!("remove(form {form}, {s}..{e}) on length {len0}"), || {
                    used = do_remove(&mut target, *form, s, e, len0);
                });
                let (f, s2, e2) = used;
                desc = format!("remove(form {f}: {s2}..{e2}) on length {len0}");
                if r.is_ok() {
                    model.drain(s2..e2);
                }
                edits += 1;
                unaligned_edit |= (s2 * bits) % 64 != 0 || (e2 * bits) % 64 != 0;
                r
            }
            Op::Truncate(k) => {
                // in-bounds arguments only (0..=len), as the property quantifies
                let k = scale16(*k, len0);
                desc = format!("truncate({k}) on length {len0}");
                model.truncate(k);
                edits += 1;
                unaligned_edit |= (k * bits) % 64 != 0;
                no_panic(&format!("truncate_panic/{n}"), &desc, || target.truncate(k))
            }
            Op::Clear => {
                desc = "clear()".to_string();
                model.clear();
                edits += 1;
                no_panic(&format!("clear_panic/{n}"), &desc, || target.clear())
            }
            Op::SnapClone => {
                desc = "clone()".to_string();
                snaps.push((target.clone(), model.clone(), "clone"));
                Ok(())
            }
            Op::SnapToOwned { a, b } => {
                let (s, e) = window(*a, *b, len0);
                desc = format!("[{s}..{e}].to_owned()");
                snaps.push((target[s..e].to_owned(), model[s..e].to_vec(), "to_owned"));
                Ok(())
            }
            Op::RevInPlace => {
                desc = "rev()".to_string();
                model = model::rev(&model);
                edits += 1;
                no_panic(&format!("rev_panic/{n}"), &desc, || target.rev())
            }
        };
        r.map_err(|f| Fail { site: f.site, msg: format!("step {step}: {}", f.msg) })?;
        crossed |= words(model.len()) != before_words;
        let ctx = |f: Fail| Fail { site: f.site, msg: format!("after step {step} = {desc}: {}", f.msg) };
        check_symbols(&sy, &target, &model, &format!("edit/{n}")).map_err(ctx)?;
        ensure_eq!(target.is_empty(), model.is_empty(), format!("edit/{n}/is_empty"), "after step {step} = {desc}: is_empty");
    }
    check_content(&sy, &target, &model, &format!("final/{n}"))?;
    for (i, (s, c, kind)) in snaps.iter().enumerate() {
        check_content(&sy, s, c, &format!("snapshot_{kind}/{n}")).map_err(|f| Fail { site: f.site, msg: format!("snapshot {i} ({kind}) taken earlier changed: {}", f.msg) })?;
    }
    let nt = edits >= 2 && unaligned_edit && crossed;
    Ok(Pass::new(nt)
        .class_if(self_arg, "self_argument")
        .class_if(!snaps.is_empty(), "snapshot")
        .class_if(crossed, "crossed_word")
        .class_if(case.start.repr.born_offset() * bits % 64 != 0, "offset_born_start"))
}

pub fn dispatch(case: &Case) -> PResult {
    with_codec!(case.codec, C, check::<C>(case))
}

fn arg(id: CodecId) -> BoxedStrategy<Arg> {
    prop_oneof![
        3 => gen::seq_spec(id, 70).prop_map(Arg::Other),
        1 => (any::<u16>(), any::<u16>()).prop_map(|(a, b)| Arg::SelfWindow { a, b }),
    ]
    .boxed()
}

fn op(id: CodecId) -> BoxedStrategy<Op> {
    let m = id.model();
    prop_oneof![
        2 => gen::code(m).prop_map(Op::Push),
        1 => gen::codes(m, 40).prop_map(Op::ExtendInherent),
        1 => gen::codes(m, 40).prop_map(Op::ExtendTrait),
        1 => (gen::codes(m, 40), gen::code(m), any::<bool>()).prop_map(|(v, d, t)| Op::ExtendFiltered(v, d, t)),
        1 => (gen::codes(m, 40), gen::codes(m, 40), gen::code(m), 0..8u8).prop_map(|(v, w, d, s)| Op::ExtendChained(v, w, d, s)),
        2 => arg(id).prop_map(Op::Append),
        2 => arg(id).prop_map(Op::Prepend),
        3 => (any::<u16>(), arg(id)).prop_map(|(p, a)| Op::Insert(p, a)),
        4 => (0..9u8, any::<u16>(), any::<u16>()).prop_map(|(form, a, b)| Op::Remove { form, a, b }),
        2 => any::<u16>().prop_map(Op::Truncate),
        1 => Just(Op::Clear),
        1 => Just(Op::SnapClone),
        1 => (any::<u16>(), any::<u16>()).prop_map(|(a, b)| Op::SnapToOwned { a, b }),
        1 => Just(Op::RevInPlace),
    ]
    .boxed()
}

fn strat(id: CodecId, max: usize, maxops: usize) -> BoxedStrategy<Case> {
    (gen::owned_spec_raw(id, max), vec(op(id), 0..=maxops)).prop_map(move |(start, ops)| Case { codec: id, start, ops }).boxed()
}

/// the operation grid of the bounded-exhaustive part: positions {0, mid, len}, three argument windows
fn grid(id: CodecId) -> Vec<Op> {
    let m = id.model();
    let (x, y) = (m.codes()[0], m.codes()[m.nsyms() - 1]);
    let w1 = SeqSpec { codes: vec![y, x, y], repr: Repr::Slice { pre: vec![x], post: vec![y] } };
    let per = 64 / m.bits;
    let w2 = SeqSpec { codes: (0..per + 1).map(|i| if i % 3 == 0 { y } else { x }).collect(), repr: Repr::Slice { pre: vec![y, y, x], post: vec![] } };
    vec![
        Op::Push(y),
        Op::ExtendInherent(vec![x, y]),
        Op::ExtendFiltered(vec![x, y, y, x, y], x, false),
        Op::ExtendChained(vec![x, y], vec![y, x, y], x, 0),
        Op::Append(Arg::Other(w1.clone())),
        Op::Append(Arg::SelfWindow { a: 20000, b: 40000 }),
        Op::Prepend(Arg::Other(w1.clone())),
        Op::Prepend(Arg::Other(w2.clone())),
        Op::Insert(0, Arg::Other(w1.clone())),
        Op::Insert(32768, Arg::Other(w2)),
        Op::Insert(65535, Arg::SelfWindow { a: 0, b: 65535 }),
        Op::Remove { form: 0, a: 0, b: 20000 },
        Op::Remove { form: 1, a: 30000, b: 30000 },
        Op::Remove { form: 6, a: 40000, b: 65535 },
        Op::Remove { form: 3, a: 0, b: 3000 },
        Op::Truncate(50000),
        Op::Truncate(65535),
        Op::SnapClone,
        Op::RevInPlace,
    ]
}

pub fn run(ctx: &mut Ctx) {
    let max = ctx.pick(200, 1000);
    for id in ALL_CODECS {
        let cases = ctx.cases(2000, 10);
        ctx.forall(&format!("histories/{}", id.name()), cases, strat(id, max, 25), dispatch);
    }
    // long starting sequences, short histories
    for id in ALL_CODECS {
        let lens = gen::long_lens_bits(id.bits(), ctx.thorough(), ctx.seed);
        ctx.forall_lens(&format!("histories_long/{}", id.name()), &lens, |n| (gen::owned_spec_n(id, n), vec(op(id), 1..=5)).prop_map(move |(start, ops)| Case { codec: id, start, ops }), dispatch);
        // long arguments into short and long targets
        ctx.forall_lens(
            &format!("histories_long_args/{}", id.name()),
            &lens,
            |n| {
                let long_arg = gen::seq_spec_n(id, n).prop_map(Arg::Other);
                let lop = prop_oneof![
                    long_arg.clone().prop_map(Op::Append),
                    long_arg.clone().prop_map(Op::Prepend),
                    (any::<u16>(), long_arg).prop_map(|(p, a)| Op::Insert(p, a)),
                ];
                (gen::owned_spec(id, 70), vec(op(id), 0..=2), lop, vec(op(id), 0..=2)).prop_map(move |(start, mut pre, l, post)| {
                    pre.push(l);
                    pre.extend(post);
                    Case { codec: id, start, ops: pre }
                })
            },
            dispatch,
        );
    }
    // bounded-exhaustive: all histories up to the depth over the grid, from 5 starting lengths
    let depth = 3;
    for id in ALL_CODECS {
        if ctx.thorough() || true {
            let m = id.model();
            let g = grid(id);
            let per = 64 / m.bits;
            let (x, y) = (m.codes()[0], m.codes()[m.nsyms() - 1]);
            let starts: Vec<SeqSpec> = [0usize, 1, per - 1, per, per + 1]
                .iter()
                .map(|&l| {
                    let codes: Vec<u8> = (0..l).map(|i| if (i / 2) % 2 == 0 { x } else { y }).collect();
                    if l % 2 == 0 {
                        SeqSpec::plain(codes)
                    } else {
                        SeqSpec { codes, repr: Repr::OffsetOwned { pre: vec![y], post: vec![x] } }
                    }
                })
                .collect();
            let mut cases = vec![];
            let gl = g.len();
            let d = if ctx.thorough() && (id == CodecId::Dna || id == CodecId::MIupac) { 4 } else { depth };
            for start in &starts {
                let total = gl.pow(d as u32);
                for mut k in 0..total {
                    let mut ops = vec![];
                    for _ in 0..d {
                        ops.push(g[k % gl].clone());
                        k /= gl;
                    }
                    cases.push(Case { codec: id, start: start.clone(), ops });
                }
            }
            ctx.each(&format!("grid_depth{}/{}", d, id.name()), cases, dispatch);
        }
    }
    ctx.require_class("self_argument");
    ctx.require_class("snapshot");
    ctx.require_class("crossed_word");
    ctx.require_class("offset_born_start");
}
