//! Oracle helpers shared by the properties: compare a library value with a model code vector.

use crate::codecs::{Cm, Syms};
use crate::model::pack_words;
use crate::obs::*;
use bio_seq::prelude::*;

/// length, emptiness, every symbol (iterator, nth, get), display and out-of-range `get`
pub fn check_content<C: Cm>(sy: &Syms<C>, s: &SeqSlice<C>, codes: &[u8], site: &str) -> R<()> {
    let n = codes.len();
    ensure_eq!(s.len(), n, format!("{site}/len"), "length");
    ensure_eq!(s.is_empty(), n == 0, format!("{site}/is_empty"), "is_empty");
    let got: Vec<u8> = no_panic(&format!("{site}/iter_panic"), "iterating", || s.iter().take(n + 2).map(|x| x.to_bits()).collect())?;
    ensure_eq!(got, codes.to_vec(), format!("{site}/symbols"), "symbol codes via iter()");
    for i in 0..n {
        let a = no_panic(&format!("{site}/nth_panic"), "nth", || s.nth(i))?;
        ensure_eq!(a.to_bits(), codes[i], format!("{site}/nth"), "nth({i})");
        let g = no_panic(&format!("{site}/get_panic"), "get", || s.get(i))?;
        ensure_eq!(g.map(|x| x.to_bits()), Some(codes[i]), format!("{site}/get"), "get({i})");
    }
    let g = no_panic(&format!("{site}/get_panic"), "get(len)", || s.get(n))?;
    ensure!(g.is_none(), format!("{site}/get_end"), "get(len) returned a symbol {g:?}");
    let txt = no_panic(&format!("{site}/display_panic"), "to_string", || s.to_string())?;
    ensure_eq!(txt, sy.text(codes), format!("{site}/display"), "display");
    Ok(())
}

/// cheaper variant: length + symbols + display
pub fn check_symbols<C: Cm>(sy: &Syms<C>, s: &SeqSlice<C>, codes: &[u8], site: &str) -> R<()> {
    ensure_eq!(s.len(), codes.len(), format!("{site}/len"), "length");
    let got: Vec<u8> = no_panic(&format!("{site}/iter_panic"), "iterating", || s.iter().take(codes.len() + 2).map(|x| x.to_bits()).collect())?;
    ensure_eq!(got, codes.to_vec(), format!("{site}/symbols"), "symbol codes via iter()");
    let txt = no_panic(&format!("{site}/display_panic"), "to_string", || s.to_string())?;
    ensure_eq!(txt, sy.text(codes), format!("{site}/display"), "display");
    Ok(())
}

/// the exported word image holds `codes` little-endian from bit 0 of word 0 (dead bits not compared)
pub fn check_image<C: Cm>(s: &Seq<C>, codes: &[u8], site: &str) -> R<()> {
    let bits = C::ID.bits();
    let raw: Vec<u64> = s.into_raw().iter().map(|&w| w as u64).collect();
    let total = codes.len() * bits;
    ensure!(raw.len() * 64 >= total, format!("{site}/image_size"), "into_raw() has {} words for {} live bits", raw.len(), total);
    let exp = pack_words(codes, bits);
    for pos in 0..total {
        let g = (raw[pos / 64] >> (pos % 64)) & 1;
        let e = (exp[pos / 64] >> (pos % 64)) & 1;
        if g != e {
            fail!(
                format!("{site}/image"),
                "into_raw() bit {pos} (symbol {} of {}) is {g}, documented layout gives {e}; word[{}] = {:#066b}, expected {:#066b}",
                pos / bits,
                codes.len(),
                pos / 64,
                raw[pos / 64],
                exp[pos / 64]
            );
        }
    }
    Ok(())
}

/// equal values must feed identical data to any hasher
pub fn check_same_hash<A: std::hash::Hash + ?Sized, B: std::hash::Hash + ?Sized>(a: &A, b: &B, site: &str, what: &str) -> R<()> {
    let (ha, hb) = (rec_hash(a), rec_hash(b));
    ensure!(ha == hb, format!("{site}/hash_stream"), "{what}: recorded hasher streams differ: {} vs {}", digest(&ha), digest(&hb));
    ensure!(std_hash(a) == std_hash(b), format!("{site}/hash_std"), "{what}: DefaultHasher values differ");
    ensure!(fnv_hash(a) == fnv_hash(b), format!("{site}/hash_fnv"), "{what}: FNV hasher values differ");
    Ok(())
}
