//! Oracle helpers shared by the properties: compare a library value with a model code vector.

use crate::codecs::{Cm, Syms};
use crate::model::pack_words;
use crate::obs::*;
use bio_seq::prelude::*;

/// length, emptiness, every symbol through the iterator, and display
/// (positional accessors are C03's subject: see `check_indexed`)
pub fn check_content<C: Cm>(sy: &Syms<C>, s: &SeqSlice<C>, codes: &[u8], site: &str) -> R<()> {
    let n = codes.len();
    ensure_eq!(s.len(), n, format!("{site}/len"), "length");
    ensure_eq!(s.is_empty(), n == 0, format!("{site}/is_empty"), "is_empty");
    let got: Vec<u8> = no_panic(&format!("{site}/iter_panic"), "iterating", || s.iter().take(n + 2).map(|x| x.to_bits()).collect())?;
    ensure_eq!(got, codes.to_vec(), format!("{site}/symbols"), "symbol codes via iter()");
    let txt = no_panic(&format!("{site}/display_panic"), "to_string", || s.to_string())?;
    ensure_eq!(txt, sy.text(codes), format!("{site}/display"), "display");
    Ok(())
}

/// `check_content` plus every positional accessor: nth(i), get(i), get(len) == None
pub fn check_indexed<C: Cm>(sy: &Syms<C>, s: &SeqSlice<C>, codes: &[u8], site: &str) -> R<()> {
    check_content(sy, s, codes, site)?;
    let n = codes.len();
    for i in 0..n {
        let a = no_panic(&format!("{site}/nth_panic"), "nth", || s.nth(i))?;
        ensure_eq!(a.to_bits(), codes[i], format!("{site}/nth"), "nth({i})");
        let g = no_panic(&format!("{site}/get_panic"), "get", || s.get(i))?;
        ensure_eq!(g.map(|x| x.to_bits()), Some(codes[i]), format!("{site}/get"), "get({i})");
    }
    let g = no_panic(&format!("{site}/get_panic"), "get(len)", || s.get(n))?;
    ensure!(g.is_none(), format!("{site}/get_end"), "get(len) returned a symbol {g:?}");
    Ok(())
}

/// cheaper variant: length + symbols + display
pub fn check_symbols<C: Cm>(sy: &Syms<C>, s: &SeqSlice<C>, codes: &[u8], site: &str) -> R<()> {
    ensure_eq!(s.len(), codes.len(), format!("{site}/len"), "length");
    let got: Vec<u8> = no_panic(&format!("{site}/iter_panic"), "iterating", || s.iter().take(codes.len() + 2).map(|x| x.to_bits()).collect())?;
    ensure_eq!(got, codes.to_vec(), format!("{site}/symbols"), "symbol codes via iter()");
    let txt = no_panic(&format!("{site}/display_panic"), "to_string", || s.to_string())?;
    ensure_eq!(txt, sy.text(codes), format!("{site}/display"), "display");
    Ok(())
}

/// the exported word image holds `codes` little-endian from bit 0 of word 0 (dead bits not compared)
pub fn check_image<C: Cm>(s: &Seq<C>, codes: &[u8], site: &str) -> R<()> {
    let bits = C::ID.bits();
    let raw: Vec<u64> = s.into_raw().iter().map(|&w| w as u64).collect();
    let total = codes.len() * bits;
    ensure!(raw.len() * 64 >= total, format!("{site}/image_size"), "into_raw() has {} words for {} live bits", raw.len(), total);
    let exp = pack_words(codes, bits);
    for pos in 0..total {
        let g = (raw[pos / 64] >> (pos % 64)) & 1;
        let e = (exp[pos / 64] >> (pos % 64)) & 1;
        if g != e {
            fail!(
                format!("{site}/image"),
                "into_raw() bit {pos} (symbol {} of {}) is {g}, documented layout gives {e}; word[{}] = {:#066b}, expected {:#066b}",
                pos / bits,
                codes.len(),
                pos / 64,
                raw[pos / 64],
                exp[pos / 64]
            );
        }
    }
    Ok(())
}

/// equal values must feed identical data to any hasher
pub fn check_same_hash<A: std::hash::Hash + ?Sized, B: std::hash::Hash + ?Sized>(a: &A, b: &B, site: &str, what: &str) -> R<()> {
    let (ha, hb) = (rec_hash(a), rec_hash(b));
    ensure!(ha == hb, format!("{site}/hash_stream"), "{what}: recorded hasher streams differ: {} vs {}", digest(&ha), digest(&hb));
    ensure!(std_hash(a) == std_hash(b), format!("{site}/hash_std"), "{what}: DefaultHasher values differ");
    ensure!(fnv_hash(a) == fnv_hash(b), format!("{site}/hash_fnv"), "{what}: FNV hasher values differ");
    Ok(())
}

/// Every way of consuming an iterator must agree with stepping it by `next()`: the i-th item is what
/// `nth(i)` returns, `skip`, `step_by`, `count`, `last` and `size_hint` are consistent with the
/// expected item list. (They are default methods unless an iterator overrides them.) The methods
/// are called on the library's iterator itself (`mk()`); `conv` only converts the yielded items.
pub fn check_iter_laws<T, I>(mk: &dyn Fn() -> I, conv: &dyn Fn(I::Item) -> T, exp: &[T], site: &str, extra: &[u16]) -> R<()>
where
    T: PartialEq + std::fmt::Debug + Clone,
    I: Iterator,
{
    let n = exp.len();
    let (lo, hi) = no_panic(&format!("{site}/size_hint_panic"), "size_hint", || mk().size_hint())?;
    ensure!(lo <= n && hi.map_or(true, |h| h >= n), format!("{site}/size_hint"), "size_hint() = ({lo}, {hi:?}) but the iterator has {n} items");
    let c = no_panic(&format!("{site}/count_panic"), "count", || mk().count())?;
    ensure_eq!(c, n, format!("{site}/count"), "count()");
    let l = no_panic(&format!("{site}/last_panic"), "last", || mk().last().map(conv))?;
    ensure_eq!(l.as_ref(), exp.last(), format!("{site}/last"), "last()");
    let mut js: Vec<usize> = vec![0, 1, 2, n / 2, n.saturating_sub(2), n.saturating_sub(1), n, n + 1];
    for e in extra {
        js.push(scale16(*e, n + 1));
    }
    js.sort();
    js.dedup();
    for &j in &js {
        let (got, next, hint) = no_panic(&format!("{site}/nth_panic"), &format!("nth({j}) on {n} items"), || {
            let mut it = mk();
            let g = it.nth(j).map(conv);
            let h = it.size_hint();
            (g, it.next().map(conv), h)
        })?;
        ensure_eq!(got.as_ref(), exp.get(j), format!("{site}/nth"), "nth({j}) of an iterator with {n} items");
        ensure_eq!(next.as_ref(), exp.get(j + 1), format!("{site}/nth_then_next"), "next() after nth({j}) of an iterator with {n} items");
        let rest = n.saturating_sub(j + 1);
        ensure!(hint.0 <= rest && hint.1.map_or(true, |h| h >= rest), format!("{site}/size_hint_after_nth"), "size_hint() after nth({j}) = {hint:?} but {rest} items remain");
        // every consumer continues from the position nth(j) left, and an iterator that nth() ran off
        // the end of stays exhausted for all of them
        let rest_items: &[T] = &exp[(j + 1).min(n)..];
        let what = format!("after nth({j}) on {n} items");
        let adv = || {
            let mut it = mk();
            it.nth(j);
            it
        };
        let c = no_panic(&format!("{site}/after_nth_count_panic"), &what, || adv().count())?;
        ensure_eq!(c, rest_items.len(), format!("{site}/after_nth_count"), "count() {what}");
        let l = no_panic(&format!("{site}/after_nth_last_panic"), &what, || adv().last().map(conv))?;
        ensure_eq!(l.as_ref(), rest_items.last(), format!("{site}/after_nth_last"), "last() {what}");
        let z = no_panic(&format!("{site}/after_nth_nth_panic"), &what, || adv().nth(1).map(conv))?;
        ensure_eq!(z.as_ref(), rest_items.get(1), format!("{site}/after_nth_nth"), "nth(1) {what}");
        let f: Vec<T> = no_panic(&format!("{site}/after_nth_fold_panic"), &what, || adv().fold(vec![], |mut acc, x| { if acc.len() < n + 2 { acc.push(conv(x)); } acc }))?;
        ensure_eq!(&f[..], rest_items, format!("{site}/after_nth_fold"), "fold() {what}");
        let sk: Vec<T> = no_panic(&format!("{site}/skip_panic"), &format!("skip({j})"), || mk().skip(j).take(n + 2).map(conv).collect())?;
        ensure_eq!(&sk[..], &exp[j.min(n)..], format!("{site}/skip"), "skip({j}) of an iterator with {n} items");
    }
    let mut steps: Vec<usize> = vec![1, 2, 3, 4, 7, n.saturating_sub(1).max(1), n.max(1), n + 1];
    for e in extra {
        steps.push(1 + scale16(*e, n));
    }
    steps.sort();
    steps.dedup();
    for &s in &steps {
        let st: Vec<T> = no_panic(&format!("{site}/step_by_panic"), &format!("step_by({s})"), || mk().step_by(s).take(n + 2).map(conv).collect())?;
        let want: Vec<T> = exp.iter().step_by(s).cloned().collect();
        ensure_eq!(st, want, format!("{site}/step_by"), "step_by({s}) of an iterator with {n} items");
        // skip then step: the usual "every s-th item starting at offset" idiom
        let off = s.min(2);
        let st2: Vec<T> = no_panic(&format!("{site}/step_by_panic"), &format!("skip({off}).step_by({s})"), || mk().skip(off).step_by(s).take(n + 2).map(conv).collect())?;
        let want2: Vec<T> = exp.iter().skip(off).step_by(s).cloned().collect();
        ensure_eq!(st2, want2, format!("{site}/skip_step_by"), "skip({off}).step_by({s}) of an iterator with {n} items");
    }
    // repeated nth(1): every other item, until exhausted
    let hops: Vec<T> = no_panic(&format!("{site}/nth_panic"), "repeated nth(1)", || {
        let mut it = mk();
        let mut v = vec![];
        for _ in 0..n + 2 {
            match it.nth(1) {
                Some(x) => v.push(conv(x)),
                None => break,
            }
        }
        v
    })?;
    let want: Vec<T> = exp.iter().skip(1).step_by(2).cloned().collect();
    ensure_eq!(hops, want, format!("{site}/nth_repeated"), "repeated nth(1) over {n} items");
    // consumers applied to an iterator that was already advanced (by next() calls, or by skip()):
    // count / last / fold / nth must continue from the current position, and an exhausted iterator
    // must stay exhausted for every consumer
    let mut ks: Vec<usize> = vec![0, 1, n / 2, n.saturating_sub(1), n, n + 1];
    ks.sort();
    ks.dedup();
    for &k in &ks {
        let rest: &[T] = &exp[k.min(n)..];
        let adv = || {
            let mut it = mk();
            for _ in 0..k {
                it.next();
            }
            it
        };
        let what = format!("after {k} next() calls on {n} items");
        let c = no_panic(&format!("{site}/advanced_count_panic"), &what, || adv().count())?;
        ensure_eq!(c, rest.len(), format!("{site}/advanced_count"), "count() {what}");
        let l = no_panic(&format!("{site}/advanced_last_panic"), &what, || adv().last().map(conv))?;
        ensure_eq!(l.as_ref(), rest.last(), format!("{site}/advanced_last"), "last() {what}");
        let f: Vec<T> = no_panic(&format!("{site}/advanced_fold_panic"), &what, || adv().fold(vec![], |mut acc, x| { if acc.len() < n + 2 { acc.push(conv(x)); } acc }))?;
        ensure_eq!(&f[..], rest, format!("{site}/advanced_fold"), "fold() {what}");
        let z = no_panic(&format!("{site}/advanced_nth_panic"), &what, || adv().nth(0).map(conv))?;
        ensure_eq!(z.as_ref(), rest.first(), format!("{site}/advanced_nth"), "nth(0) {what}");
        // skipping astronomically far (the index arithmetic may wrap) exhausts the iterator for good
        for far in [usize::MAX, usize::MAX - k, usize::MAX - k.saturating_sub(1), usize::MAX / 2 + 1] {
            let (got, after, left) = no_panic(&format!("{site}/advanced_far_nth_panic"), &format!("nth({far}) {what}"), || {
                let mut it = adv();
                let g = it.nth(far).map(conv);
                let a = it.next().map(conv);
                (g, a, it.count())
            })?;
            ensure!(got.is_none(), format!("{site}/advanced_far_nth"), "nth({far}) {what} returned {got:?}");
            ensure!(after.is_none() && left == 0, format!("{site}/advanced_far_nth_then"), "after nth({far}) {what} the iterator still yields {after:?} and {left} more");
        }
        let (lo, hi) = adv().size_hint();
        ensure!(lo <= rest.len() && hi.map_or(true, |h| h >= rest.len()), format!("{site}/advanced_size_hint"), "size_hint() {what} = ({lo}, {hi:?}) but {} items remain", rest.len());
        // the same through skip(k): Skip forwards count/last/fold to the inner iterator after one nth
        let what = format!("after skip({k}) on {n} items");
        let c = no_panic(&format!("{site}/skip_count_panic"), &what, || mk().skip(k).count())?;
        ensure_eq!(c, rest.len(), format!("{site}/skip_count"), "count() {what}");
        let l = no_panic(&format!("{site}/skip_last_panic"), &what, || mk().skip(k).last().map(conv))?;
        ensure_eq!(l.as_ref(), rest.last(), format!("{site}/skip_last"), "last() {what}");
        let f: Vec<T> = no_panic(&format!("{site}/skip_fold_panic"), &what, || mk().skip(k).fold(vec![], |mut acc, x| { if acc.len() < n + 2 { acc.push(conv(x)); } acc }))?;
        ensure_eq!(&f[..], rest, format!("{site}/skip_fold"), "fold() {what}");
        let mut fe: Vec<T> = vec![];
        no_panic(&format!("{site}/skip_for_each_panic"), &what, || mk().skip(k).for_each(|x| { if fe.len() < n + 2 { fe.push(conv(x)); } }))?;
        ensure_eq!(&fe[..], rest, format!("{site}/skip_for_each"), "for_each() {what}");
    }
    // zip / enumerate / fold go through next() or fold: the items and their order once more
    let folded: Vec<T> = no_panic(&format!("{site}/fold_panic"), "fold", || mk().fold(vec![], |mut acc, x| { if acc.len() < n + 2 { acc.push(conv(x)); } acc }))?;
    ensure_eq!(&folded[..], exp, format!("{site}/fold"), "fold() over {n} items");
    Ok(())
}
