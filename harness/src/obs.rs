//! Run context: proptest driver, exhaustive enumerator, evidence counters, replay, recording hasher,
//! quiet panic capture.

use proptest::strategy::Strategy;
use proptest::test_runner::{Config, RngSeed, TestCaseError, TestError, TestRunner};
use serde::de::DeserializeOwned;
use serde::Serialize;
use serde_json::{json, Value};
use std::cell::Cell;
use std::collections::{BTreeMap, HashSet};
use std::fmt::Debug;
use std::hash::{Hash, Hasher};
use std::panic::{self, AssertUnwindSafe};

// ---------------------------------------------------------------------------------------------
// verdict types

#[derive(Debug, Clone)]
pub struct Pass {
    pub nt: bool,
    pub cls: Vec<&'static str>,
}

impl Pass {
    pub fn new(nt: bool) -> Pass {
        Pass { nt, cls: vec![] }
    }
    pub fn class(mut self, c: &'static str) -> Pass {
        self.cls.push(c);
        self
    }
    pub fn class_if(mut self, cond: bool, c: &'static str) -> Pass {
        if cond {
            self.cls.push(c);
        }
        self
    }
}

#[derive(Debug, Clone)]
pub struct Fail {
    /// stable label of the oracle clause that failed (used for known-finding signatures)
    pub site: String,
    pub msg: String,
}

pub type PResult = Result<Pass, Fail>;
pub type R<T> = Result<T, Fail>;

#[macro_export]
macro_rules! fail {
    ($site:expr, $($arg:tt)*) => {
        return Err($crate::obs::Fail { site: ($site).to_string(), msg: format!($($arg)*) })
    };
}

#[macro_export]
macro_rules! ensure {
    ($cond:expr, $site:expr, $($arg:tt)*) => {
        if !($cond) {
            return Err($crate::obs::Fail { site: ($site).to_string(), msg: format!($($arg)*) });
        }
    };
}

#[macro_export]
macro_rules! ensure_eq {
    ($a:expr, $b:expr, $site:expr) => {{
        let (a, b) = (&$a, &$b);
        if a != b {
            return Err($crate::obs::Fail {
                site: ($site).to_string(),
                msg: format!("{} = {:?} but {} = {:?}", stringify!($a), a, stringify!($b), b),
            });
        }
    }};
    ($a:expr, $b:expr, $site:expr, $($arg:tt)*) => {{
        let (a, b) = (&$a, &$b);
        if a != b {
            return Err($crate::obs::Fail {
                site: ($site).to_string(),
                msg: format!("{}: observed {:?}, expected {:?}", format!($($arg)*), a, b),
            });
        }
    }};
}

// ---------------------------------------------------------------------------------------------
// quiet panic capture

thread_local! {
    static QUIET: Cell<u32> = const { Cell::new(0) };
}

pub fn install_panic_hook() {
    let default = panic::take_hook();
    panic::set_hook(Box::new(move |info| {
        if QUIET.with(|q| q.get()) == 0 {
            default(info);
        }
    }));
}

/// When set (`--trace FILE`), every case is written to the file before it is evaluated, so that the
/// driver can tell which input a process that died (stack overflow, abort, memory fault) was on.
pub static TRACE: std::sync::OnceLock<String> = std::sync::OnceLock::new();

pub fn trace_case<T: Serialize>(sub: &str, case: &T) {
    if let Some(path) = TRACE.get() {
        let v = json!({"sub": sub, "case": serde_json::to_value(case).unwrap_or(Value::Null)});
        let _ = std::fs::write(path, serde_json::to_string(&v).unwrap_or_default());
    }
}

/// Run `f`, turning a panic into `Err(message)` without printing it.
pub fn quiet_catch<T>(f: impl FnOnce() -> T) -> Result<T, String> {
    QUIET.with(|q| q.set(q.get() + 1));
    let r = panic::catch_unwind(AssertUnwindSafe(f));
    QUIET.with(|q| q.set(q.get() - 1));
    r.map_err(|e| {
        if let Some(s) = e.downcast_ref::<&str>() {
            (*s).to_string()
        } else if let Some(s) = e.downcast_ref::<String>() {
            s.clone()
        } else {
            "<non-string panic payload>".to_string()
        }
    })
}

/// `f` must not panic: a panic becomes a failure at `site`.
pub fn no_panic<T>(site: &str, what: &str, f: impl FnOnce() -> T) -> R<T> {
    match quiet_catch(f) {
        Ok(v) => Ok(v),
        Err(m) => Err(Fail { site: site.to_string(), msg: format!("{what} panicked: {m}") }),
    }
}

// ---------------------------------------------------------------------------------------------
// recording hasher: the exact stream of write calls a `Hash` impl makes

#[derive(Default, Clone, PartialEq, Eq, Debug)]
pub struct RecHasher {
    pub calls: Vec<u8>,
    pub ncalls: usize,
}

impl RecHasher {
    fn rec(&mut self, tag: u8, bytes: &[u8]) {
        self.calls.push(tag);
        self.calls.push(bytes.len() as u8);
        self.calls.extend_from_slice(bytes);
        self.ncalls += 1;
    }
}

impl Hasher for RecHasher {
    fn finish(&self) -> u64 {
        0
    }
    fn write(&mut self, bytes: &[u8]) {
        // arbitrary-length writes: length recorded in 4 bytes
        self.calls.push(0);
        self.calls.extend_from_slice(&(bytes.len() as u32).to_le_bytes());
        self.calls.extend_from_slice(bytes);
        self.ncalls += 1;
    }
    fn write_u8(&mut self, i: u8) {
        self.rec(1, &[i]);
    }
    fn write_u16(&mut self, i: u16) {
        self.rec(2, &i.to_le_bytes());
    }
    fn write_u32(&mut self, i: u32) {
        self.rec(3, &i.to_le_bytes());
    }
    fn write_u64(&mut self, i: u64) {
        self.rec(4, &i.to_le_bytes());
    }
    fn write_u128(&mut self, i: u128) {
        self.rec(5, &i.to_le_bytes());
    }
    fn write_usize(&mut self, i: usize) {
        self.rec(6, &i.to_le_bytes());
    }
    fn write_i8(&mut self, i: i8) {
        self.rec(7, &i.to_le_bytes());
    }
    fn write_i16(&mut self, i: i16) {
        self.rec(8, &i.to_le_bytes());
    }
    fn write_i32(&mut self, i: i32) {
        self.rec(9, &i.to_le_bytes());
    }
    fn write_i64(&mut self, i: i64) {
        self.rec(10, &i.to_le_bytes());
    }
    fn write_i128(&mut self, i: i128) {
        self.rec(11, &i.to_le_bytes());
    }
    fn write_isize(&mut self, i: isize) {
        self.rec(12, &i.to_le_bytes());
    }
}

pub fn rec_hash<T: Hash + ?Sized>(v: &T) -> RecHasher {
    let mut h = RecHasher::default();
    v.hash(&mut h);
    h
}

/// a short printable digest of a recorded stream (for messages)
pub fn digest(h: &RecHasher) -> String {
    let mut s = std::collections::hash_map::DefaultHasher::new();
    h.calls.hash(&mut s);
    format!("{} calls/{} bytes/{:016x}", h.ncalls, h.calls.len(), s.finish())
}

pub fn std_hash<T: Hash + ?Sized>(v: &T) -> u64 {
    let mut s = std::collections::hash_map::DefaultHasher::new();
    v.hash(&mut s);
    s.finish()
}

/// FNV-1a, byte at a time: a hasher that is sensitive to how integers are chunked
#[derive(Clone)]
pub struct Fnv(pub u64);
impl Default for Fnv {
    fn default() -> Self {
        Fnv(0xcbf29ce484222325)
    }
}
impl Hasher for Fnv {
    fn finish(&self) -> u64 {
        self.0
    }
    fn write(&mut self, bytes: &[u8]) {
        for b in bytes {
            self.0 ^= *b as u64;
            self.0 = self.0.wrapping_mul(0x100000001b3);
        }
    }
}
pub fn fnv_hash<T: Hash + ?Sized>(v: &T) -> u64 {
    let mut s = Fnv::default();
    v.hash(&mut s);
    s.finish()
}

// ---------------------------------------------------------------------------------------------
// context

#[derive(Clone, Copy, PartialEq, Eq, Debug)]
pub enum Tier {
    Quick,
    Thorough,
}

pub enum Mode {
    Run,
    Replay { sub: String, case: Value },
}

#[derive(Default, Debug, Clone, Serialize)]
pub struct SubStat {
    pub evaluations: u64,
    pub nontrivial: u64,
    pub exhaustive: bool,
}

#[derive(Debug, Clone, Serialize)]
pub struct Failure {
    pub sub: String,
    pub site: String,
    pub reason: String,
    pub case: Value,
}

pub struct Ctx {
    pub prop: String,
    pub tier: Tier,
    pub seed: u64,
    pub profile: &'static str,
    pub shard: u32,
    pub nshards: u32,
    /// which of a property's first-use orders of process-global lazily initialised state this process
    /// takes (C14: 0 = a forward translation first, 1 = a reverse translation first)
    pub order: u32,
    /// divide every generated case count by this (the unoptimised build runs a fraction of the random
    /// cases; the enumerations and the one-case-per-length families are unaffected)
    pub divide: u32,
    /// skip the one-case-per-length cases longer than this (unoptimised build)
    pub maxlen: usize,
    pub mode: Mode,
    pub known: Vec<String>,
    pub only_sub: Option<String>,

    pub evaluations: u64,
    pub nt: HashSet<u64>,
    pub classes: BTreeMap<String, u64>,
    pub samples: Vec<Value>,
    pub subs: BTreeMap<String, SubStat>,
    pub known_hits: BTreeMap<String, (u64, String)>,
    pub failures: Vec<Failure>,
    pub required_classes: Vec<String>,
    pub notes: Vec<String>,
    pub replayed: bool,
    pub max_shrink_iters: u32,
}

pub const PROFILE: &str = if cfg!(debug_assertions) { "dbg" } else { "rel" };

fn salt(s: &str) -> u64 {
    // FNV: stable across runs and platforms
    let mut h = Fnv::default();
    h.write(s.as_bytes());
    h.finish()
}

fn case_hash(sub: &str, v: &Value) -> u64 {
    let mut h = std::collections::hash_map::DefaultHasher::new();
    sub.hash(&mut h);
    v.to_string().hash(&mut h);
    h.finish()
}

impl Ctx {
    pub fn new(prop: &str, tier: Tier, seed: u64) -> Ctx {
        Ctx {
            prop: prop.to_string(),
            tier,
            seed,
            profile: PROFILE,
            shard: 0,
            nshards: 1,
            order: 0,
            divide: 1,
            maxlen: usize::MAX,
            mode: Mode::Run,
            known: vec![],
            only_sub: None,
            evaluations: 0,
            nt: HashSet::new(),
            classes: BTreeMap::new(),
            samples: vec![],
            subs: BTreeMap::new(),
            known_hits: BTreeMap::new(),
            failures: vec![],
            required_classes: vec![],
            notes: vec![],
            replayed: false,
            max_shrink_iters: 4096,
        }
    }

    pub fn thorough(&self) -> bool {
        self.tier == Tier::Thorough
    }

    /// quick case count -> this run's case count (thorough: x `factor`, divided over shards)
    pub fn cases(&self, quick: u32, factor: u32) -> u32 {
        let total = if self.thorough() { quick.saturating_mul(factor).saturating_mul(self.boost()) } else { quick };
        ((total / self.nshards) / self.divide.max(1)).max(1)
    }

    /// extra thorough-tier multiplier for properties whose cases are cheap, so that every thorough run
    /// spends minutes, not seconds (measured on this 16-core box)
    fn boost(&self) -> u32 {
        match self.prop.as_str() {
            "C02" => 4,
            "C03" => 4,
            "C04" => 20,
            "C08" => 25,
            "C09" => 15,
            "C10" => 10,
            "C12" => 20,
            "C13" => 60,
            "C15" => 5,
            "C18" => 12,
            "C19" => 10,
            "C20" => 10,
            _ => 1,
        }
    }

    pub fn pick<T>(&self, quick: T, thorough: T) -> T {
        if self.thorough() {
            thorough
        } else {
            quick
        }
    }

    pub fn require_class(&mut self, c: &str) {
        self.required_classes.push(c.to_string());
    }

    fn is_known(&self, site: &str) -> bool {
        let full = format!("{}/{}", self.prop, site);
        self.known.iter().any(|k| *k == full)
    }

    fn record_pass(&mut self, sub: &str, case: &Value, p: &Pass) {
        self.evaluations += 1;
        let st = self.subs.entry(sub.to_string()).or_default();
        st.evaluations += 1;
        for c in &p.cls {
            *self.classes.entry((*c).to_string()).or_insert(0) += 1;
        }
        if p.nt {
            let h = case_hash(sub, case);
            if self.nt.insert(h) {
                st.nontrivial += 1;
                let per_sub = self.samples.iter().filter(|s| s["sub"] == sub).count();
                if per_sub < 3 && self.samples.len() < 24 {
                    let txt = case.to_string();
                    if txt.len() <= 700 {
                        self.samples.push(json!({"sub": sub, "case": case}));
                    }
                }
            }
        }
    }

    fn sub_selected(&self, sub: &str) -> bool {
        match (&self.mode, &self.only_sub) {
            (Mode::Replay { sub: s, .. }, _) => s == sub,
            (_, Some(o)) => o == sub,
            _ => true,
        }
    }

    fn run_replay<T: DeserializeOwned + Debug>(&mut self, sub: &str, check: &dyn Fn(&T) -> PResult) {
        let Mode::Replay { case, .. } = &self.mode else { return };
        let case_v = case.clone();
        self.replayed = true;
        let parsed: T = match serde_json::from_value(case_v.clone()) {
            Ok(c) => c,
            Err(e) => {
                self.notes.push(format!("replay: cannot parse case for sub {sub}: {e}"));
                return;
            }
        };
        let r = quiet_catch(|| check(&parsed));
        self.evaluations += 1;
        match r {
            Ok(Ok(_)) => {}
            Ok(Err(f)) => self.failures.push(Failure { sub: sub.to_string(), site: f.site, reason: f.msg, case: case_v }),
            Err(p) => self.failures.push(Failure { sub: sub.to_string(), site: "panic".into(), reason: format!("unexpected panic: {p}"), case: case_v }),
        }
    }

    /// Generated-input search: `cases` cases from `strat`, checked by `check`, shrunk on failure.
    pub fn forall<T, S>(&mut self, sub: &str, cases: u32, strat: S, check: impl Fn(&T) -> PResult)
    where
        T: Debug + Serialize + DeserializeOwned,
        S: Strategy<Value = T>,
    {
        if !self.sub_selected(sub) {
            return;
        }
        if let Mode::Replay { .. } = self.mode {
            self.run_replay::<T>(sub, &check);
            return;
        }
        let seed = self.seed ^ salt(&self.prop).rotate_left(17) ^ salt(sub) ^ (self.shard as u64).wrapping_mul(0x9E3779B97F4A7C15);
        let cfg = Config {
            cases,
            failure_persistence: None,
            rng_seed: RngSeed::Fixed(seed),
            max_shrink_iters: self.max_shrink_iters,
            // shrinking is a convenience, not a verdict: bound it by wall time as well
            max_shrink_time: 30_000,
            max_global_rejects: 65536,
            ..Config::default()
        };
        let mut runner = TestRunner::new(cfg);
        let stopped = Cell::new(false);
        // the closure is re-run during shrinking: counters stop at the first failure
        let this = std::cell::RefCell::new(&mut *self);
        let result = runner.run(&strat, |case| {
            trace_case(sub, &case);
            let r = quiet_catch(|| check(&case));
            let r = match r {
                Ok(r) => r,
                Err(p) => Err(Fail { site: "panic".into(), msg: format!("unexpected panic: {p}") }),
            };
            match r {
                Ok(p) => {
                    if !stopped.get() {
                        let v = serde_json::to_value(&case).unwrap_or(Value::Null);
                        this.borrow_mut().record_pass(sub, &v, &p);
                    }
                    Ok(())
                }
                Err(f) => {
                    let mut me = this.borrow_mut();
                    if me.is_known(&f.site) {
                        if !stopped.get() {
                            let e = me.known_hits.entry(f.site.clone()).or_insert((0, f.msg.clone()));
                            e.0 += 1;
                        }
                        return Ok(());
                    }
                    stopped.set(true);
                    Err(TestCaseError::fail(format!("[{}] {}", f.site, f.msg)))
                }
            }
        });
        drop(this);
        match result {
            Ok(()) => {}
            Err(TestError::Fail(reason, minimal)) => {
                let v = serde_json::to_value(&minimal).unwrap_or(Value::Null);
                // re-evaluate the minimal case to get its own site/message
                let (site, msg) = match quiet_catch(|| check(&minimal)) {
                    Ok(Err(f)) => (f.site, f.msg),
                    Err(p) => ("panic".to_string(), format!("unexpected panic: {p}")),
                    Ok(Ok(_)) => ("unstable".to_string(), format!("minimal case passes on re-evaluation; original: {reason}")),
                };
                self.failures.push(Failure { sub: sub.to_string(), site, reason: msg, case: v });
            }
            Err(TestError::Abort(reason)) => {
                self.notes.push(format!("generator health: sub {sub} aborted: {reason}"));
            }
        }
    }

    /// One generated case for each listed length (the seed is varied per length).
    pub fn forall_lens<T, S>(&mut self, sub: &str, lens: &[usize], mk: impl Fn(usize) -> S, check: impl Fn(&T) -> PResult)
    where
        T: Debug + Serialize + DeserializeOwned,
        S: Strategy<Value = T>,
    {
        if let Mode::Replay { .. } = self.mode {
            self.forall(sub, 1, mk(lens.first().copied().unwrap_or(0)), check);
            return;
        }
        let seed0 = self.seed;
        // each evaluation of a long case is expensive: shrink only a little
        let iters0 = self.max_shrink_iters;
        self.max_shrink_iters = 40;
        for (i, n) in lens.iter().enumerate() {
            if (i as u32) % self.nshards != self.shard || *n > self.maxlen {
                continue;
            }
            self.seed = seed0 ^ ((*n as u64) << 20);
            let shard = self.shard;
            self.shard = 0;
            let before = self.failures.len();
            self.forall(sub, 1, mk(*n), &check);
            self.shard = shard;
            if self.failures.len() > before {
                break;
            }
        }
        self.max_shrink_iters = iters0;
        self.seed = seed0;
    }

    /// Complete enumeration of a finite domain with the same oracle functions.
    pub fn each<T, I>(&mut self, sub: &str, items: I, check: impl Fn(&T) -> PResult)
    where
        T: Debug + Serialize + DeserializeOwned,
        I: IntoIterator<Item = T>,
    {
        if !self.sub_selected(sub) {
            return;
        }
        if let Mode::Replay { .. } = self.mode {
            self.run_replay::<T>(sub, &check);
            return;
        }
        if self.shard != 0 {
            return;
        }
        self.subs.entry(sub.to_string()).or_default().exhaustive = true;
        for case in items {
            trace_case(sub, &case);
            let r = quiet_catch(|| check(&case));
            let r = match r {
                Ok(r) => r,
                Err(p) => Err(Fail { site: "panic".into(), msg: format!("unexpected panic: {p}") }),
            };
            let v = serde_json::to_value(&case).unwrap_or(Value::Null);
            match r {
                Ok(p) => self.record_pass(sub, &v, &p),
                Err(f) => {
                    if self.is_known(&f.site) {
                        let e = self.known_hits.entry(f.site.clone()).or_insert((0, f.msg.clone()));
                        e.0 += 1;
                        continue;
                    }
                    self.failures.push(Failure { sub: sub.to_string(), site: f.site, reason: f.msg, case: v });
                    return;
                }
            }
        }
    }

    pub fn to_json(&self, wall_s: f64) -> Value {
        let known: Vec<Value> = self.known_hits.iter().map(|(k, (n, m))| json!({"site": k, "count": n, "example": m})).collect();
        json!({
            "property_id": self.prop,
            "tier": if self.thorough() { "thorough" } else { "quick" },
            "seed": self.seed,
            "profile": self.profile,
            "shard": self.shard,
            "order": self.order,
            "nshards": self.nshards,
            "evaluations": self.evaluations,
            "distinct_nontrivial": self.nt.len(),
            "classes": self.classes,
            "subs": self.subs,
            "samples": self.samples,
            "known_hits": known,
            "failures": self.failures,
            "required_classes": self.required_classes,
            "notes": self.notes,
            "wall_s": wall_s,
            "replayed": self.replayed,
        })
    }
}

/// map a 16-bit generated index monotonically into 0..=max (shrinks toward 0)
pub fn scale16(i: u16, max: usize) -> usize {
    ((i as usize) * (max + 1)) >> 16
}
