//! bsv — property-based verification harness for bio-seq (see /verif/DESIGN.md)
#![allow(clippy::all)]

#[macro_use]
pub mod obs;
pub mod model;
#[macro_use]
pub mod codecs;
pub mod custom;
pub mod fuzzdec;
pub mod gen;
pub mod kmers;
pub mod oracle;
pub mod progs;
pub mod props;
