//! Reference models, written by hand from the documentation (module docs, README, the IUPAC
//! nucleotide code table and NCBI translation table 1). Nothing in this file looks at bio-seq.

use std::cmp::Ordering;

#[derive(Clone, Copy, Debug, PartialEq, Eq, Hash, PartialOrd, Ord, serde::Serialize, serde::Deserialize)]
pub enum CodecId {
    Dna,
    Iupac,
    Amino,
    Text,
    MDna,
    MIupac,
    Degen,
    /// hand-written user codec, 3 bits (harness/src/custom.rs)
    Tri,
    /// hand-written user codec, 7 bits
    Sept,
    /// hand-written user codec, 8 bits, codes different from the ASCII of the display characters
    Oct,
    /// hand-written user codec, 2 bits, declaration order differs from code order
    Duo,
    /// hand-written user codec, 1 bit, larger code declared first
    Uno,
}

/// the seven built-in codecs plus two hand-written user codecs of widths 3 and 7 bits: the generic
/// sequence code must not depend on the width being one of 1, 2, 4, 5, 6, 8
pub const ALL_CODECS: [CodecId; 12] = [
    CodecId::Dna,
    CodecId::Iupac,
    CodecId::Amino,
    CodecId::Text,
    CodecId::MDna,
    CodecId::MIupac,
    CodecId::Degen,
    CodecId::Tri,
    CodecId::Sept,
    CodecId::Oct,
    CodecId::Duo,
    CodecId::Uno,
];

pub const BUILTIN_CODECS: [CodecId; 7] = [CodecId::Dna, CodecId::Iupac, CodecId::Amino, CodecId::Text, CodecId::MDna, CodecId::MIupac, CodecId::Degen];

impl CodecId {
    pub fn name(self) -> &'static str {
        match self {
            CodecId::Dna => "dna",
            CodecId::Iupac => "iupac",
            CodecId::Amino => "amino",
            CodecId::Text => "text",
            CodecId::MDna => "masked_dna",
            CodecId::MIupac => "masked_iupac",
            CodecId::Degen => "degenerate",
            CodecId::Tri => "custom3",
            CodecId::Sept => "custom7",
            CodecId::Oct => "custom8",
            CodecId::Duo => "custom2",
            CodecId::Uno => "custom1",
        }
    }
    pub fn model(self) -> &'static Model {
        model(self)
    }
    pub fn bits(self) -> usize {
        match self {
            CodecId::Dna => 2,
            CodecId::Iupac => 4,
            CodecId::Amino => 6,
            CodecId::Text => 8,
            CodecId::MDna => 4,
            CodecId::MIupac => 5,
            CodecId::Degen => 1,
            CodecId::Tri => 3,
            CodecId::Sept => 7,
            CodecId::Oct => 8,
            CodecId::Duo => 2,
            CodecId::Uno => 1,
        }
    }
}

/// One alphabet as documented.
#[derive(Debug)]
pub struct Model {
    pub id: CodecId,
    pub bits: usize,
    /// canonical symbols: (bit code, display character), in documented order
    pub syms: Vec<(u8, u8)>,
    /// alternative bit patterns that decode to a canonical code: (pattern, canonical code)
    pub alts: Vec<(u8, u8)>,
    /// additional ASCII bytes accepted by the parser: (byte, canonical code)
    pub ascii_alias: Vec<(u8, u8)>,
    /// every bit pattern 0..=255 is a symbol (8-bit text codec: a transparent byte)
    pub all_bits: bool,
    /// complement on canonical codes, when the codec is complementable
    pub comp: Option<Vec<(u8, u8)>>,
}

impl Model {
    /// canonical codes, in order
    pub fn codes(&self) -> Vec<u8> {
        self.syms.iter().map(|s| s.0).collect()
    }
    pub fn nsyms(&self) -> usize {
        self.syms.len()
    }
    /// model ASCII parser: byte -> canonical code
    pub fn parse_byte(&self, b: u8) -> Option<u8> {
        if let Some(s) = self.syms.iter().find(|s| s.1 == b) {
            return Some(s.0);
        }
        self.ascii_alias.iter().find(|a| a.0 == b).map(|a| a.1)
    }
    /// model bit decoder: pattern -> canonical code (for `all_bits` codecs: the pattern itself)
    pub fn decode_bits(&self, p: u8) -> Option<u8> {
        if self.all_bits {
            return Some(p);
        }
        if self.syms.iter().any(|s| s.0 == p) {
            return Some(p);
        }
        self.alts.iter().find(|a| a.0 == p).map(|a| a.1)
    }
    pub fn ch(&self, code: u8) -> u8 {
        match self.syms.iter().find(|s| s.0 == code) {
            Some(s) => s.1,
            None => {
                assert!(self.all_bits, "model: code {code} is not a symbol of {:?}", self.id);
                code
            }
        }
    }
    /// display text of a code vector (what `to_string()` must give for symbols of the parse alphabet)
    pub fn text(&self, codes: &[u8]) -> String {
        codes.iter().map(|&c| self.ch(c) as char).collect()
    }
    /// strict model parser: Ok(codes) or Err(first bad byte)
    pub fn parse(&self, bytes: &[u8]) -> Result<Vec<u8>, u8> {
        let mut v = Vec::with_capacity(bytes.len());
        for &b in bytes {
            match self.parse_byte(b) {
                Some(c) => v.push(c),
                None => return Err(b),
            }
        }
        Ok(v)
    }
    pub fn comp_code(&self, c: u8) -> u8 {
        let t = self.comp.as_ref().expect("codec has no complement");
        t.iter().find(|p| p.0 == c).map(|p| p.1).unwrap_or_else(|| panic!("model: no complement for code {c}"))
    }
    pub fn comp_seq(&self, codes: &[u8]) -> Vec<u8> {
        codes.iter().map(|&c| self.comp_code(c)).collect()
    }
    /// every bit pattern of the codec's width decodes to a symbol of the parse alphabet
    pub fn all_patterns_valid(&self) -> bool {
        (0..(1u16 << self.bits)).all(|p| self.decode_bits(p as u8).map_or(false, |c| self.syms.iter().any(|s| s.0 == c)))
    }
    /// bytes the parser accepts
    pub fn accepted_bytes(&self) -> Vec<u8> {
        (0..=255u8).filter(|&b| self.parse_byte(b).is_some()).collect()
    }
    /// bytes the parser must refuse
    pub fn refused_bytes(&self) -> Vec<u8> {
        (0..=255u8).filter(|&b| self.parse_byte(b).is_none()).collect()
    }
}

// ---------------------------------------------------------------------------------------------
// nucleotide sets

/// IUPAC letters as nucleotide sets (IUPAC-IUB 1984 table)
pub const IUPAC_SETS: [(u8, &str); 16] = [
    (b'A', "A"),
    (b'C', "C"),
    (b'G', "G"),
    (b'T', "T"),
    (b'R', "AG"),
    (b'Y', "CT"),
    (b'S', "CG"),
    (b'W', "AT"),
    (b'K', "GT"),
    (b'M', "AC"),
    (b'B', "CGT"),
    (b'D', "AGT"),
    (b'H', "ACT"),
    (b'V', "ACG"),
    (b'N', "ACGT"),
    (b'-', ""),
];

/// set bitmap over (A,C,G,T) -> abstract 4-bit set value with A=8,C=4,G=2,T=1 (the documented 4-bit table)
pub fn set_of_letter(letter: u8) -> u8 {
    let up = letter.to_ascii_uppercase();
    let up = if up == b'.' { b'-' } else { up };
    let (_, members) = IUPAC_SETS.iter().find(|s| s.0 == up).unwrap_or_else(|| panic!("not an IUPAC letter: {}", letter as char));
    let mut v = 0u8;
    for m in members.bytes() {
        v |= match m {
            b'A' => 8,
            b'C' => 4,
            b'G' => 2,
            b'T' => 1,
            _ => unreachable!(),
        };
    }
    v
}

pub fn letter_of_set(set: u8) -> u8 {
    IUPAC_SETS.iter().find(|s| set_of_letter(s.0) == set).unwrap().0
}

/// complement of a nucleotide set: A<->T, C<->G member-wise
pub fn comp_set(set: u8) -> u8 {
    let mut v = 0;
    if set & 8 != 0 {
        v |= 1;
    }
    if set & 4 != 0 {
        v |= 2;
    }
    if set & 2 != 0 {
        v |= 4;
    }
    if set & 1 != 0 {
        v |= 8;
    }
    v
}

// ---------------------------------------------------------------------------------------------
// NCBI translation table 1

pub const NCBI_AAS: &str = "FFLLSSSSYY**CC*WLLLLPPPPHHQQRRRRIIIMTTTTNNKKSSRRVVVVAAAADDEEGGGG";
const TCAG: [u8; 4] = [b'T', b'C', b'A', b'G'];

/// amino letter of a concrete codon given as three of `ACGT`
pub fn ncbi_translate(codon: &[u8]) -> u8 {
    assert_eq!(codon.len(), 3);
    let idx = |b: u8| TCAG.iter().position(|&x| x == b).unwrap();
    NCBI_AAS.as_bytes()[16 * idx(codon[0]) + 4 * idx(codon[1]) + idx(codon[2])]
}

pub fn dna_code(b: u8) -> u8 {
    match b {
        b'A' => 0,
        b'C' => 1,
        b'G' => 2,
        b'T' => 3,
        _ => panic!("not a base"),
    }
}
pub fn dna_char(c: u8) -> u8 {
    [b'A', b'C', b'G', b'T'][c as usize]
}

/// 6-bit pattern of a codon: first base in the low two bits (documented little-endian packing)
pub fn codon_pattern(codon: &[u8]) -> u8 {
    dna_code(codon[0]) | (dna_code(codon[1]) << 2) | (dna_code(codon[2]) << 4)
}
pub fn pattern_codon(p: u8) -> [u8; 3] {
    [dna_char(p & 3), dna_char((p >> 2) & 3), dna_char((p >> 4) & 3)]
}

/// canonical codon of each amino acid as documented in the codec (`A = GCA`, ...)
pub const AMINO_CANON: [(u8, &str); 21] = [
    (b'A', "GCA"),
    (b'C', "TGC"),
    (b'D', "GAC"),
    (b'E', "GAA"),
    (b'F', "TTC"),
    (b'G', "GGA"),
    (b'H', "CAC"),
    (b'I', "ATA"),
    (b'K', "AAA"),
    (b'L', "CTA"),
    (b'M', "ATG"),
    (b'N', "AAC"),
    (b'P', "CCA"),
    (b'Q', "CAA"),
    (b'R', "AGA"),
    (b'S', "AGC"),
    (b'T', "ACA"),
    (b'V', "GTA"),
    (b'W', "TGG"),
    (b'Y', "TAC"),
    (b'*', "TAA"),
];

// ---------------------------------------------------------------------------------------------

fn build(id: CodecId) -> Model {
    match id {
        CodecId::Dna => Model {
            id,
            bits: 2,
            syms: vec![(0, b'A'), (1, b'C'), (2, b'G'), (3, b'T')],
            alts: vec![],
            ascii_alias: vec![],
            all_bits: false,
            comp: Some(vec![(0, 3), (1, 2), (2, 1), (3, 0)]),
        },
        CodecId::Iupac => {
            let syms: Vec<(u8, u8)> = IUPAC_SETS.iter().map(|s| (set_of_letter(s.0), s.0)).collect();
            let comp = syms.iter().map(|s| (s.0, comp_set(s.0))).collect();
            Model { id, bits: 4, syms, alts: vec![], ascii_alias: vec![], all_bits: false, comp: Some(comp) }
        }
        CodecId::Amino => {
            let syms: Vec<(u8, u8)> = AMINO_CANON.iter().map(|(a, c)| (codon_pattern(c.as_bytes()), *a)).collect();
            let mut alts = vec![];
            for p in 0..64u8 {
                if syms.iter().any(|s| s.0 == p) {
                    continue;
                }
                let aa = ncbi_translate(&pattern_codon(p));
                let canon = syms.iter().find(|s| s.1 == aa).unwrap().0;
                alts.push((p, canon));
            }
            Model { id, bits: 6, syms, alts, ascii_alias: vec![], all_bits: false, comp: None }
        }
        CodecId::Text => Model {
            id,
            bits: 8,
            syms: vec![(b'A', b'A'), (b'C', b'C'), (b'G', b'G'), (b'T', b'T'), (b'N', b'N')],
            alts: vec![],
            ascii_alias: vec![],
            all_bits: true,
            comp: None,
        },
        CodecId::MDna => {
            let syms = vec![
                (8, b'A'),
                (4, b'C'),
                (2, b'G'),
                (1, b'T'),
                (7, b'a'),
                (11, b'c'),
                (13, b'g'),
                (14, b't'),
                (0, b'N'),
                (15, b'n'),
                (12, b'-'),
                (10, b'.'),
                (6, b'?'),
                (9, b'!'),
            ];
            // complement at character level: A<->T, C<->G, case kept, everything else fixed
            let cc = |ch: u8| -> u8 {
                match ch {
                    b'A' => b'T',
                    b'T' => b'A',
                    b'C' => b'G',
                    b'G' => b'C',
                    b'a' => b't',
                    b't' => b'a',
                    b'c' => b'g',
                    b'g' => b'c',
                    o => o,
                }
            };
            let comp = syms.iter().map(|s| (s.0, syms.iter().find(|t| t.1 == cc(s.1)).unwrap().0)).collect();
            Model { id, bits: 4, syms, alts: vec![(3, 12), (5, 10)], ascii_alias: vec![], all_bits: false, comp: Some(comp) }
        }
        CodecId::MIupac => {
            // 5-bit: A=16 C=8 (mask=4) G=2 T=1
            let code5 = |letter: u8| -> u8 {
                let set = set_of_letter(letter);
                let mut v = 0;
                if set & 8 != 0 {
                    v |= 16;
                }
                if set & 4 != 0 {
                    v |= 8;
                }
                if set & 2 != 0 {
                    v |= 2;
                }
                if set & 1 != 0 {
                    v |= 1;
                }
                v
            };
            let mut syms = vec![];
            for (l, _) in IUPAC_SETS.iter() {
                syms.push((code5(*l), *l));
            }
            for (l, _) in IUPAC_SETS.iter() {
                let lower = if *l == b'-' { b'.' } else { l.to_ascii_lowercase() };
                syms.push((code5(*l) | 4, lower));
            }
            let comp = syms
                .iter()
                .map(|s| {
                    let masked = s.0 & 4;
                    let set = comp_set(set_of_letter(s.1));
                    let up = letter_of_set(set);
                    (s.0, code5(up) | masked)
                })
                .collect();
            Model { id, bits: 5, syms, alts: vec![], ascii_alias: vec![], all_bits: false, comp: Some(comp) }
        }
        CodecId::Tri => Model {
            id,
            bits: 3,
            syms: vec![(0, b'A'), (1, b'C'), (2, b'G'), (3, b'T'), (4, b'N'), (5, b'-')],
            alts: vec![(6, 5), (7, 5)],
            ascii_alias: vec![],
            all_bits: false,
            comp: None,
        },
        CodecId::Sept => Model {
            id,
            bits: 7,
            syms: vec![(0, b'*'), (1, b'A'), (2, b'C'), (4, b'G'), (8, b'T'), (16, b'R'), (32, b'Y'), (64, b'K'), (77, b'S'), (100, b'W'), (126, b'q'), (127, b'M')],
            alts: vec![],
            ascii_alias: vec![],
            all_bits: false,
            comp: None,
        },
        CodecId::Duo => Model {
            id,
            bits: 2,
            syms: vec![(0, b'A'), (1, b'C'), (3, b'G'), (2, b'T')],
            alts: vec![],
            ascii_alias: vec![],
            all_bits: true,
            comp: None,
        },
        CodecId::Uno => Model {
            id,
            bits: 1,
            syms: vec![(1, b'Y'), (0, b'R')],
            alts: vec![],
            ascii_alias: vec![],
            all_bits: true,
            comp: None,
        },
        CodecId::Oct => Model {
            id,
            bits: 8,
            syms: vec![(1, b'+'), (2, b'-'), (3, b'B'), (0x10, b' '), (0x61, b'0'), (0x80, b'?'), (0xC1, b'a'), (0xFF, b'Z')],
            alts: vec![],
            ascii_alias: vec![],
            all_bits: false,
            comp: None,
        },
        CodecId::Degen => Model {
            id,
            bits: 1,
            syms: vec![(0, b'W'), (1, b'S')],
            alts: vec![],
            ascii_alias: vec![(b'A', 0), (b'T', 0), (b'C', 1), (b'G', 1)],
            all_bits: false,
            comp: Some(vec![(0, 0), (1, 1)]),
        },
    }
}

pub fn model(id: CodecId) -> &'static Model {
    use std::sync::OnceLock;
    static M: OnceLock<Vec<Model>> = OnceLock::new();
    let v = M.get_or_init(|| ALL_CODECS.iter().map(|&c| build(c)).collect());
    v.iter().find(|m| m.id == id).unwrap()
}

// ---------------------------------------------------------------------------------------------
// packing and order

/// expected little-endian bit image: symbol i occupies bits [i*bits, (i+1)*bits)
pub fn pack_words(codes: &[u8], bits: usize) -> Vec<u64> {
    let total = codes.len() * bits;
    let mut w = vec![0u64; total.div_ceil(64)];
    for (i, &c) in codes.iter().enumerate() {
        for b in 0..bits {
            if (c >> b) & 1 == 1 {
                let pos = i * bits + b;
                w[pos / 64] |= 1u64 << (pos % 64);
            }
        }
    }
    w
}

/// sum code_i * 2^(i*bits), for images of at most 128 bits
pub fn pack_u128(codes: &[u8], bits: usize) -> u128 {
    assert!(codes.len() * bits <= 128);
    let mut v = 0u128;
    for (i, &c) in codes.iter().enumerate() {
        v |= (c as u128) << (i * bits);
    }
    v
}

pub fn unpack_u128(v: u128, bits: usize, n: usize) -> Vec<u8> {
    (0..n).map(|i| ((v >> (i * bits)) & ((1u128 << bits) - 1)) as u8).collect()
}

/// colexicographic comparison of equal-length code vectors: last symbol most significant
pub fn colex_cmp(a: &[u8], b: &[u8]) -> Ordering {
    assert_eq!(a.len(), b.len());
    for i in (0..a.len()).rev() {
        match a[i].cmp(&b[i]) {
            Ordering::Equal => continue,
            o => return o,
        }
    }
    Ordering::Equal
}

pub fn lex_cmp(a: &[u8], b: &[u8]) -> Ordering {
    a.cmp(b)
}

pub fn rev(codes: &[u8]) -> Vec<u8> {
    codes.iter().rev().copied().collect()
}

pub fn bit_of(words: &[u64], pos: usize) -> bool {
    (words[pos / 64] >> (pos % 64)) & 1 == 1
}

#[cfg(test)]
mod tests {
    use super::*;
    #[test]
    fn tables() {
        let m = model(CodecId::Iupac);
        assert_eq!(m.parse_byte(b'N'), Some(15));
        assert_eq!(m.parse_byte(b'B'), Some(0b0111));
        assert_eq!(m.comp_code(0b0111), 0b1110);
        let a = model(CodecId::Amino);
        assert_eq!(a.syms.len(), 21);
        assert_eq!(a.alts.len(), 43);
        assert_eq!(a.parse_byte(b'A'), Some(0b00_01_10));
        assert_eq!(a.decode_bits(0b00_10_11), Some(0b00_00_11));
        let mi = model(CodecId::MIupac);
        assert_eq!(mi.syms.len(), 32);
        assert_eq!(mi.parse_byte(b'n'), Some(0b11111));
        assert_eq!(mi.parse_byte(b'.'), Some(0b00100));
        assert_eq!(mi.comp_code(0b10100), 0b00101);
        let md = model(CodecId::MDna);
        assert_eq!(md.comp_code(7), 14);
        assert_eq!(ncbi_translate(b"ATG"), b'M');
        assert_eq!(ncbi_translate(b"TGA"), b'*');
        assert_eq!(pack_words(&[0, 1, 2, 3], 2), vec![0b11100100]);
    }
}
