//! Decoding of fuzzer bytes into the same case types the proptest strategies produce, so that the
//! coverage-guided targets run the same oracles (the semantic check is inside the target).

use crate::codecs::{Repr, SeqSpec};
use crate::model::{CodecId, ALL_CODECS};
use crate::obs::{install_panic_hook, PResult};
use crate::props::{c01, c02, c03, c04, c06, c07, c10, c11, c12, c18, c19, c20};
use std::sync::Once;

/// minimal byte reader (all-zero once exhausted, so every input decodes)
pub struct Bytes<'a> {
    d: &'a [u8],
    p: usize,
}

impl<'a> Bytes<'a> {
    pub fn new(d: &'a [u8]) -> Self {
        Bytes { d, p: 0 }
    }
    pub fn u8(&mut self) -> u8 {
        let v = self.d.get(self.p).copied().unwrap_or(0);
        self.p += 1;
        v
    }
    pub fn u16(&mut self) -> u16 {
        (self.u8() as u16) << 8 | self.u8() as u16
    }
    pub fn left(&self) -> usize {
        self.d.len().saturating_sub(self.p)
    }
    pub fn rest(&mut self) -> &'a [u8] {
        let r = &self.d[self.p.min(self.d.len())..];
        self.p = self.d.len();
        r
    }
    pub fn codes(&mut self, id: CodecId, n: usize) -> Vec<u8> {
        let c = id.model().codes();
        (0..n).map(|_| c[self.u8() as usize % c.len()]).collect()
    }
    pub fn codec(&mut self) -> CodecId {
        ALL_CODECS[self.u8() as usize % ALL_CODECS.len()]
    }
    pub fn len(&mut self, max: usize) -> usize {
        let b = self.u8() as usize;
        // small lengths most of the time, long ones from a second byte
        if b < 200 {
            b % (max.min(70) + 1)
        } else {
            (b - 200) * 256 % (max + 1) + self.u8() as usize % (max + 1).min(256)
        }
        .min(max)
    }
    pub fn repr(&mut self, id: CodecId) -> Repr {
        let mp = crate::gen::max_pre(id.bits());
        let pre = |s: &mut Self| {
            let n = s.u8() as usize % (mp + 1);
            s.codes(id, n)
        };
        match self.u8() % 26 {
            0 => Repr::Collect,
            1 => Repr::Parse,
            2 => Repr::FromVec,
            3 => Repr::WithCap(self.u16() % 2000),
            4 => Repr::PushEach,
            5 => Repr::OffsetOwned { pre: pre(self), post: self.codes(id, 2) },
            6 => Repr::OffsetClone { pre: pre(self), post: vec![] },
            7 | 8 | 9 => Repr::Slice { pre: pre(self), post: self.codes(id, 2) },
            10 => Repr::AndSelf { pre: pre(self), pre2: pre(self) },
            11 => Repr::OrSelf { pre: pre(self), pre2: pre(self) },
            12 => Repr::Rev2,
            13 => Repr::ToRev2 { pre: pre(self) },
            14 => {
                let n = self.u8() as usize % 40;
                Repr::Edited { junk: self.codes(id, n), at: self.u16() }
            }
            15 => Repr::RemovedPrefix { pre: pre(self) },
            16 => {
                let n = self.u8() as usize % 70;
                Repr::Truncated { post: self.codes(id, n) }
            }
            17 => Repr::Appended { split: self.u16(), pre: pre(self) },
            18 => Repr::Prepended { split: self.u16(), pre: pre(self) },
            19 => Repr::InsertedIntoEmpty { pre: pre(self), cleared: self.u8() % 2 == 0 },
            20 => Repr::FromBitSlice { head: self.u8() % 64 },
            21 => {
                let n = self.u8() as usize % 70;
                Repr::Refilled { junk: self.codes(id, n) }
            }
            22 => {
                let n = self.u8() as usize % 40;
                Repr::TruncExtend { split: self.u16(), junk: self.codes(id, n) }
            }
            23 => Repr::RawBitVec { head: 1 + self.u8() % 63 },
            24 => Repr::CollectedSlices { pre: pre(self), post: self.codes(id, 2) },
            _ => Repr::Collect,
        }
    }
    /// a representation of an owned sequence whose word image starts at bit 0 (what C04 quantifies over)
    pub fn aligned_owned_spec(&mut self, id: CodecId, max: usize) -> SeqSpec {
        let mut s = self.owned_spec(id, max);
        if matches!(s.repr, Repr::RawBitVec { .. } | Repr::FromBitSlice { .. }) {
            s.repr = Repr::Collect;
        }
        s
    }
    pub fn words(&mut self, max: usize) -> Vec<u64> {
        let n = self.u8() as usize % (max + 1);
        (0..n)
            .map(|_| match self.u8() % 6 {
                0 => 0,
                1 => u64::MAX,
                _ => (0..8).fold(0u64, |acc, _| acc << 8 | self.u8() as u64),
            })
            .collect()
    }
    pub fn spec(&mut self, id: CodecId, max: usize) -> SeqSpec {
        let repr = self.repr(id);
        let n = self.len(max);
        SeqSpec { codes: self.codes(id, n), repr }
    }
    pub fn owned_spec(&mut self, id: CodecId, max: usize) -> SeqSpec {
        let mut s = self.spec(id, max);
        if let Repr::Slice { pre, post } = s.repr {
            s.repr = Repr::OffsetOwned { pre, post };
        }
        s
    }
}

static INIT: Once = Once::new();

/// raw bytes -> strict parsing through every entry point, all seven codecs (C01)
pub fn c01_parse(data: &[u8]) -> PResult {
    let mut last = Ok(crate::obs::Pass::new(false));
    for id in ALL_CODECS {
        last = c01::dispatch(&c01::Case { codec: id, body: data.to_vec(), bad: vec![] });
        if last.is_err() {
            return last;
        }
    }
    last
}

/// raw bytes -> trimming, all seven codecs (C19)
pub fn c19_trim(data: &[u8]) -> PResult {
    let mut last = Ok(crate::obs::Pass::new(false));
    for id in ALL_CODECS {
        let t = c19::Trim { lead: vec![], body: c01::Case { codec: id, body: data.to_vec(), bad: vec![] }, trail: vec![] };
        last = c19::dispatch_trim(&t);
        if last.is_err() {
            return last;
        }
    }
    last
}

pub fn c03_slice(data: &[u8]) -> PResult {
    let mut b = Bytes::new(data);
    let id = b.codec();
    let root = b.spec(id, 160);
    let depth = 1 + b.u8() as usize % 3;
    let path = (0..depth).map(|_| c03::RangeOp { form: b.u8() % 8, a: b.u16(), b: b.u16() }).collect();
    let oob = if b.u8() % 3 == 0 { Some(c03::Oob { kind: b.u8() % 10, a: b.u16(), over: b.u8() % 3, far: if b.u8() % 3 == 0 { Some(b.u8()) } else { None } }) } else { None };
    c03::dispatch(&c03::Case { codec: id, root, path, oob })
}

pub fn c11_iter(data: &[u8]) -> PResult {
    let mut b = Bytes::new(data);
    let id = b.codec();
    let root = b.spec(id, 130);
    let second = b.spec(id, 20);
    let widths = (0..3).map(|_| b.u16()).collect();
    c11::dispatch(&c11::Case { codec: id, s: root, second, widths })
}

pub fn c06_edits(data: &[u8]) -> PResult {
    let mut b = Bytes::new(data);
    let id = b.codec();
    let start = b.owned_spec(id, 130);
    let mut ops = vec![];
    while b.left() > 0 && ops.len() < 64 {
        let arg = |b: &mut Bytes| if b.u8() % 4 == 0 { c06::Arg::SelfWindow { a: b.u16(), b: b.u16() } } else { c06::Arg::Other(b.spec(id, 70)) };
        ops.push(match b.u8() % 16 {
            0 | 1 => c06::Op::Push(b.codes(id, 1)[0]),
            2 => {
                let n = b.u8() as usize % 40;
                c06::Op::ExtendInherent(b.codes(id, n))
            }
            3 => {
                let n = b.u8() as usize % 40;
                c06::Op::ExtendTrait(b.codes(id, n))
            }
            4 | 5 => c06::Op::Append(arg(&mut b)),
            6 | 7 => c06::Op::Prepend(arg(&mut b)),
            8 | 9 => c06::Op::Insert(b.u16(), arg(&mut b)),
            10 | 11 | 12 => c06::Op::Remove { form: b.u8() % 9, a: b.u16(), b: b.u16() },
            13 => {
                if b.u8() % 2 == 0 {
                    c06::Op::Truncate(b.u16())
                } else {
                    let n = b.u8() as usize % 40;
                    if b.u8() % 2 == 0 {
                        c06::Op::ExtendFiltered(b.codes(id, n), b.codes(id, 1)[0], b.u8() % 2 == 0)
                    } else {
                        let k = b.u8() as usize % 40;
                        c06::Op::ExtendChained(b.codes(id, n), b.codes(id, k), b.codes(id, 1)[0], b.u8() % 8)
                    }
                }
            }
            14 => match b.u8() % 4 {
                0 => c06::Op::Clear,
                1 => c06::Op::SnapClone,
                2 => c06::Op::SnapToOwned { a: b.u16(), b: b.u16() },
                _ => c06::Op::RevInPlace,
            },
            _ => c06::Op::Remove { form: 0, a: b.u16(), b: b.u16() },
        });
    }
    c06::dispatch(&c06::Case { codec: id, start, ops })
}

pub fn c07_revcomp(data: &[u8]) -> PResult {
    let mut b = Bytes::new(data);
    let id = b.codec();
    let s = b.spec(id, 160);
    let case = c07::Case { codec: id, s };
    c07::dispatch_rev(&case)?;
    if crate::codecs::COMP_CODECS.contains(&id) {
        c07::dispatch_comp(&case)
    } else {
        Ok(crate::obs::Pass::new(false))
    }
}

/// pairs in a generated relation, every pairing of holder types; two windows of one parent (C02)
pub fn c02_pairs(data: &[u8]) -> PResult {
    let mut b = Bytes::new(data);
    let id = b.codec();
    if b.u8() % 5 == 0 {
        let parent = b.spec(id, 160);
        return c02::same_parent_dispatch(&c02::SameParent { codec: id, parent, i: b.u16(), j: b.u16(), len: b.u16() });
    }
    let a = b.spec(id, 160);
    let rel = match b.u8() % 12 {
        0 | 1 => c02::Rel::Identical,
        2 | 3 => c02::Rel::Subst(b.u16(), b.u8()),
        4 => c02::Rel::Prefix(b.u16()),
        5 => c02::Rel::Suffix(b.u16()),
        6 => c02::Rel::Appended(b.u8()),
        7 => c02::Rel::TwoSubst(b.u16(), b.u8(), b.u8()),
        8 => c02::Rel::Constant(b.u8()),
        9 => c02::Rel::RotatedWords(b.u8()),
        10 => c02::Rel::SubstEdge { from_end: b.u8() % 2 == 0, off: b.u8(), sym: b.u8() },
        _ => {
            let n = b.len(60);
            c02::Rel::Independent(b.codes(id, n))
        }
    };
    let b_repr = b.repr(id);
    c02::dispatch(&c02::Case { codec: id, a, rel, b_repr })
}

/// integers of short windows, word images of owned sequences, arbitrary images (C04)
pub fn c04_image(data: &[u8]) -> PResult {
    let mut b = Bytes::new(data);
    let id = b.codec();
    match b.u8() % 4 {
        0 => {
            // integer conversion is stated for non-empty sequences
            let mut s = b.spec(id, 70);
            if s.codes.is_empty() {
                s.codes = b.codes(id, 1);
            }
            if matches!(s.repr, Repr::Static(_)) {
                s.repr = Repr::Collect;
            }
            c04::int_dispatch(&c04::IntCase { codec: id, s })
        }
        1 => c04::raw_dispatch(&c04::RawCase { codec: id, words: b.words(4) }),
        _ => {
            let s = b.aligned_owned_spec(id, 160);
            let counts = (0..b.u8() % 4).map(|_| b.u16()).collect();
            c04::image_dispatch(&c04::ImgCase { codec: id, s, counts })
        }
    }
}

/// ordering of owned sequences: triples in generated relations (C10)
pub fn c10_order(data: &[u8]) -> PResult {
    let mut b = Bytes::new(data);
    let id = b.codec();
    let a = b.owned_spec(id, 130);
    let related = |b: &mut Bytes, base: &[u8]| -> SeqSpec {
        let mut codes = base.to_vec();
        match b.u8() % 5 {
            0 => {}
            1 | 2 => {
                // a few substitutions
                for _ in 0..1 + b.u8() % 3 {
                    if !codes.is_empty() {
                        let at = crate::obs::scale16(b.u16(), codes.len() - 1);
                        codes[at] = b.codes(id, 1)[0];
                    }
                }
            }
            3 => {
                // fresh prefix, shared suffix
                let cut = crate::obs::scale16(b.u16(), codes.len());
                let fresh = b.codes(id, cut);
                codes[..cut].copy_from_slice(&fresh);
            }
            _ => {
                let n = b.len(130);
                codes = b.codes(id, n);
            }
        }
        SeqSpec { codes, repr: { let mut s = b.owned_spec(id, 0); std::mem::replace(&mut s.repr, Repr::Collect) } }
    };
    let bb = related(&mut b, &a.codes);
    let cc = related(&mut b, &bb.codes);
    c10::seq_dispatch(&c10::SeqTriple { codec: id, a, b: bb, c: cc })
}

/// IUPAC set algebra: b is derived from a position by position (C12)
pub fn c12_sets(data: &[u8]) -> PResult {
    let mut b = Bytes::new(data);
    let id = CodecId::Iupac;
    let a = b.spec(id, 130);
    let mode = b.u8() % 4;
    let codes: Vec<u8> = a
        .codes
        .iter()
        .map(|x| {
            let k = b.u8();
            match mode {
                0 => k % 16,
                1 => x & (k % 16),
                2 => x | (k % 16),
                // subsets with stretches of gaps and rare violations
                _ => if k < 150 { 0 } else if k < 250 { x & (k % 16) } else { k % 16 },
            }
        })
        .collect();
    let b_repr = b.repr(id);
    let c = b.spec(id, 40);
    c12::dispatch(&c12::Case { a, b: SeqSpec { codes, repr: b_repr }, c })
}

/// serialization round trips of sequences in every provenance and of arbitrary images (C18)
pub fn c18_serde(data: &[u8]) -> PResult {
    let mut b = Bytes::new(data);
    let id = b.codec();
    if b.u8() % 4 == 0 && (id.model().all_patterns_valid() || id == CodecId::Text) {
        let words = b.words(6);
        return c18::raw_dispatch(&c18::RawCase { codec: id, words, count: b.u16() });
    }
    c18::dispatch(&c18::Case { codec: id, s: b.owned_spec(id, 160) })
}

/// soft-masking of sequences over the two masked codecs (C20)
pub fn c20_mask(data: &[u8]) -> PResult {
    let mut b = Bytes::new(data);
    let id = if b.u8() % 2 == 0 { CodecId::MDna } else { CodecId::MIupac };
    // as in the proptest strategy: no '?' / '!' in the content, for which no case mapping is claimed
    let m = id.model();
    let allowed: Vec<u8> = m.syms.iter().filter(|s| s.1 != b'?' && s.1 != b'!').map(|s| s.0).collect();
    let mut s = b.owned_spec(id, 160);
    for c in s.codes.iter_mut() {
        if !allowed.contains(c) {
            *c = allowed[0];
        }
    }
    c20::dispatch(&c20::Case { codec: id, s })
}

pub const TARGETS: [&str; 12] = ["c01_parse", "c19_trim", "c03_slice", "c11_iter", "c06_edits", "c07_revcomp", "c02_pairs", "c04_image", "c10_order", "c12_sets", "c18_serde", "c20_mask"];

/// entry for the fuzz targets: Err(message) is a property violation
pub fn run(target: &str, data: &[u8]) -> Result<(), String> {
    // libFuzzer's panic hook aborts on every panic; ours lets expected (caught) panics unwind quietly
    INIT.call_once(install_panic_hook);
    let r = match target {
        "c01_parse" => c01_parse(data),
        "c19_trim" => c19_trim(data),
        "c03_slice" => c03_slice(data),
        "c11_iter" => c11_iter(data),
        "c06_edits" => c06_edits(data),
        "c07_revcomp" => c07_revcomp(data),
        "c02_pairs" => c02_pairs(data),
        "c04_image" => c04_image(data),
        "c10_order" => c10_order(data),
        "c12_sets" => c12_sets(data),
        "c18_serde" => c18_serde(data),
        "c20_mask" => c20_mask(data),
        _ => return Err(format!("unknown target {target}")),
    };
    r.map(|_| ()).map_err(|f| format!("[{}] {}", f.site, f.msg))
}

/// which property a failure of a target belongs to, from the oracle site's module
pub fn describe(target: &str, data: &[u8]) -> serde_json::Value {
    let r = run(target, data);
    serde_json::json!({"target": target, "bytes": data, "result": match r { Ok(()) => "pass".to_string(), Err(m) => m }})
}
