//! proptest strategies shared by the properties: lengths, symbol vectors, representations.
//! Every random choice is made here, by proptest, so shrinking and replay work.

use crate::codecs::{pool_codes, pool_len, Repr, SeqSpec};
use crate::model::{CodecId, Model};
use proptest::collection::vec;
use proptest::prelude::*;
use proptest::sample::select;

fn gcd(a: usize, b: usize) -> usize {
    if b == 0 {
        a
    } else {
        gcd(b, a % b)
    }
}

/// lengths: small, word-boundary and uniform classes (DESIGN 4.3)
pub fn len_strategy(bits: usize, max: usize) -> BoxedStrategy<usize> {
    let mut boundary: Vec<usize> = vec![];
    for k in 1..=4usize {
        for d in [-1i64, 0, 1] {
            for base in [k * 64usize.div_ceil(bits), k * 64 / bits] {
                let v = base as i64 + d;
                if v >= 0 && (v as usize) <= max.max(4 * 64 / bits + 1) {
                    boundary.push(v as usize);
                }
            }
        }
    }
    boundary.sort();
    boundary.dedup();
    prop_oneof![
        2 => 0..=2usize,
        4 => select(boundary),
        4 => 0..=max,
    ]
    .boxed()
}

/// number of flank symbols in front of a window: covers every bit offset 0..63
pub fn max_pre(bits: usize) -> usize {
    2 * 64 / gcd(bits, 64)
}

/// one canonical code
pub fn code(m: &'static Model) -> BoxedStrategy<u8> {
    let codes = m.codes();
    (0..codes.len()).prop_map(move |i| codes[i]).boxed()
}

/// `n` canonical codes with boundary content patterns (uniform / all-min / all-max / alternating)
pub fn codes_n(m: &'static Model, n: usize) -> BoxedStrategy<Vec<u8>> {
    let codes = m.codes();
    let lo = *codes.iter().min().unwrap();
    let hi = *codes.iter().max().unwrap();
    prop_oneof![
        12 => vec(code(m), n),
        3 => Just(vec![lo; n]),
        3 => Just(vec![hi; n]),
        2 => (code(m), code(m)).prop_map(move |(a, b)| (0..n).map(|i| if i % 2 == 0 { a } else { b }).collect::<Vec<u8>>()),
        4 => runs(m, n),
    ]
    .boxed()
}

/// run-structured content: stretches of one symbol (gap columns, N stretches, homopolymers) of lengths
/// around the lane counts of a 64-bit word, between stretches of mixed symbols
pub fn runs(m: &'static Model, n: usize) -> BoxedStrategy<Vec<u8>> {
    let codes = m.codes();
    let lo = *codes.iter().min().unwrap();
    let hi = *codes.iter().max().unwrap();
    let sym = prop_oneof![3 => Just(lo), 2 => Just(hi), 3 => code(m)];
    let per = (64 / m.bits).max(1);
    let runlen = prop_oneof![
        3 => 1usize..4,
        2 => (per.saturating_sub(1)).max(1)..=per + 1,
        3 => per + 2..=3 * per + 1,
        1 => 3 * per + 2..=5 * per,
    ];
    let pieces = n / 6 + 2;
    vec((sym, runlen, vec(code(m), 0..4)), 1..=pieces.min(40))
        .prop_map(move |ps| {
            let mut out = Vec::with_capacity(n);
            let mut i = 0;
            while out.len() < n {
                let (s, l, mixed) = &ps[i % ps.len()];
                out.extend(std::iter::repeat(*s).take(*l));
                out.extend(mixed.iter().copied());
                i += 1;
            }
            out.truncate(n);
            out
        })
        .boxed()
}

/// codes of generated length
pub fn codes(m: &'static Model, max: usize) -> BoxedStrategy<Vec<u8>> {
    len_strategy(m.bits, max).prop_flat_map(move |n| codes_n(m, n)).boxed()
}

/// flank symbols: up to `max` uniform codes (content is arbitrary on purpose: a read or write one
/// symbol too far must be visible)
pub fn flank(m: &'static Model, max: usize) -> BoxedStrategy<Vec<u8>> {
    vec(code(m), 0..=max).boxed()
}

pub fn pre_flank(m: &'static Model) -> BoxedStrategy<Vec<u8>> {
    flank(m, max_pre(m.bits))
}

/// any representation of an arbitrary content vector (never `Static`, whose content is fixed)
pub fn repr(m: &'static Model) -> BoxedStrategy<Repr> {
    let pre = pre_flank(m);
    let post = flank(m, 3);
    prop_oneof![
        3 => Just(Repr::Collect),
        2 => Just(Repr::Parse),
        1 => Just(Repr::FromVec),
        1 => (0..2000u16).prop_map(Repr::WithCap),
        1 => Just(Repr::PushEach),
        4 => (pre.clone(), post.clone()).prop_map(|(pre, post)| Repr::OffsetOwned { pre, post }),
        1 => (pre.clone(), post.clone()).prop_map(|(pre, post)| Repr::OffsetClone { pre, post }),
        8 => (pre.clone(), post.clone()).prop_map(|(pre, post)| Repr::Slice { pre, post }),
        1 => (pre.clone(), pre.clone()).prop_map(|(pre, pre2)| Repr::AndSelf { pre, pre2 }),
        1 => (pre.clone(), pre.clone()).prop_map(|(pre, pre2)| Repr::OrSelf { pre, pre2 }),
        1 => Just(Repr::Rev2),
        1 => pre.clone().prop_map(|pre| Repr::ToRev2 { pre }),
        1 => (flank(m, 40), any::<u16>()).prop_map(|(junk, at)| Repr::Edited { junk, at }),
        1 => pre.clone().prop_map(|pre| Repr::RemovedPrefix { pre }),
        1 => flank(m, 70).prop_map(|post| Repr::Truncated { post }),
        1 => (any::<u16>(), pre.clone()).prop_map(|(split, pre)| Repr::Appended { split, pre }),
        1 => (any::<u16>(), pre).prop_map(|(split, pre)| Repr::Prepended { split, pre }),
        1 => (1..64u8).prop_map(|head| Repr::RawBitVec { head }),
        1 => flank(m, 70).prop_map(|junk| Repr::Refilled { junk }),
        1 => (pre_flank(m), flank(m, 3)).prop_map(|(pre, post)| Repr::CollectedSlices { pre, post }),
        1 => (0..64u8).prop_map(|head| Repr::FromBitSlice { head }),
        1 => (pre_flank(m), any::<bool>()).prop_map(|(pre, cleared)| Repr::InsertedIntoEmpty { pre, cleared }),
        1 => (any::<u16>(), flank(m, 70)).prop_map(|(split, junk)| Repr::TruncExtend { split, junk }),
    ]
    .boxed()
}

/// owned representations only (for properties about owned sequences)
pub fn owned_repr(m: &'static Model) -> BoxedStrategy<Repr> {
    let pre = pre_flank(m);
    let post = flank(m, 3);
    prop_oneof![
        2 => Just(Repr::Collect),
        2 => Just(Repr::Parse),
        1 => Just(Repr::FromVec),
        1 => (0..2000u16).prop_map(Repr::WithCap),
        1 => Just(Repr::PushEach),
        5 => (pre.clone(), post.clone()).prop_map(|(pre, post)| Repr::OffsetOwned { pre, post }),
        2 => (pre.clone(), post.clone()).prop_map(|(pre, post)| Repr::OffsetClone { pre, post }),
        2 => (pre.clone(), pre.clone()).prop_map(|(pre, pre2)| Repr::AndSelf { pre, pre2 }),
        2 => (pre.clone(), pre.clone()).prop_map(|(pre, pre2)| Repr::OrSelf { pre, pre2 }),
        1 => Just(Repr::Rev2),
        2 => pre.clone().prop_map(|pre| Repr::ToRev2 { pre }),
        2 => (flank(m, 40), any::<u16>()).prop_map(|(junk, at)| Repr::Edited { junk, at }),
        2 => pre.clone().prop_map(|pre| Repr::RemovedPrefix { pre }),
        2 => flank(m, 70).prop_map(|post| Repr::Truncated { post }),
        1 => (any::<u16>(), pre.clone()).prop_map(|(split, pre)| Repr::Appended { split, pre }),
        1 => (any::<u16>(), pre).prop_map(|(split, pre)| Repr::Prepended { split, pre }),
        1 => flank(m, 70).prop_map(|junk| Repr::Refilled { junk }),
        1 => (pre_flank(m), flank(m, 3)).prop_map(|(pre, post)| Repr::CollectedSlices { pre, post }),
        1 => (0..64u8).prop_map(|head| Repr::FromBitSlice { head }),
        1 => (pre_flank(m), any::<bool>()).prop_map(|(pre, cleared)| Repr::InsertedIntoEmpty { pre, cleared }),
        1 => (any::<u16>(), flank(m, 70)).prop_map(|(split, junk)| Repr::TruncExtend { split, junk }),
    ]
    .boxed()
}

/// a sequence (content + representation) of generated length; static literals included where the
/// codec has a pool
pub fn seq_spec(id: CodecId, max: usize) -> BoxedStrategy<SeqSpec> {
    let m = id.model();
    let general = (codes(m, max), repr(m)).prop_map(|(codes, repr)| SeqSpec { codes, repr });
    let n = pool_len(id);
    if n == 0 {
        general.boxed()
    } else {
        prop_oneof![
            9 => general,
            1 => (0..n).prop_map(move |i| SeqSpec { codes: pool_codes(id, i).unwrap(), repr: Repr::Static(i as u8) }),
        ]
        .boxed()
    }
}

/// a sequence with exactly these codes in a generated representation
pub fn spec_for(id: CodecId, codes: Vec<u8>) -> BoxedStrategy<SeqSpec> {
    let m = id.model();
    repr(m).prop_map(move |repr| SeqSpec { codes: codes.clone(), repr }).boxed()
}

pub fn owned_spec(id: CodecId, max: usize) -> BoxedStrategy<SeqSpec> {
    let m = id.model();
    (codes(m, max), owned_repr(m)).prop_map(|(codes, repr)| SeqSpec { codes, repr }).boxed()
}

/// owned representations plus a raw bit vector with a non-zero head (C02 / C18 only)
pub fn owned_spec_raw(id: CodecId, max: usize) -> BoxedStrategy<SeqSpec> {
    let m = id.model();
    let r = prop_oneof![
        6 => owned_repr(m),
        1 => (1..64u8).prop_map(|head| Repr::RawBitVec { head }),
    ];
    (codes(m, max), r).prop_map(|(codes, repr)| SeqSpec { codes, repr }).boxed()
}

/// any representation (borrowed, owned, static where possible, raw bit vector)
pub fn any_spec(id: CodecId, max: usize) -> BoxedStrategy<SeqSpec> {
    prop_oneof![
        8 => seq_spec(id, max),
        1 => owned_spec_raw(id, max),
    ]
    .boxed()
}

pub fn any_repr(m: &'static Model) -> BoxedStrategy<Repr> {
    prop_oneof![
        12 => repr(m),
        1 => (1..64u8).prop_map(|head| Repr::RawBitVec { head }),
    ]
    .boxed()
}

/// the fixed list of long lengths every length-dependent property visits (one case per length):
/// around the powers of two where bulk / block / table fast paths typically switch on
pub fn long_lens(thorough: bool, seed: u64) -> Vec<usize> {
    // around powers of two, and the round decimal sizes people pick for blocks and buffers
    let mut v = vec![1000usize, 1024, 1025, 2049, 4096, 4097, 4098, 8193, 10000, 16384, 16385, 16386, 20000];
    if thorough {
        v.extend([1023, 2000, 2047, 2048, 4095, 5000, 8191, 8192, 16383, 30000, 32767, 32769, 50000, 65535, 65536, 65537, 70001, 100000, 131073, 200000, 262145]);
    }
    // a few lengths away from the powers of two, drawn from the run's seed through proptest
    use proptest::strategy::ValueTree;
    let mut r = proptest::test_runner::TestRunner::new(proptest::test_runner::Config {
        rng_seed: proptest::test_runner::RngSeed::Fixed(seed ^ 0x10e6),
        failure_persistence: None,
        ..proptest::test_runner::Config::default()
    });
    let extra = if thorough { 10 } else { 4 };
    for i in 0..extra {
        let hi = if i % 2 == 0 { 3000usize } else { 12000 };
        let s = 201..hi;
        v.push(s.new_tree(&mut r).expect("strategy").current());
    }
    v
}

/// long lengths: around powers of two (where fast paths and block algorithms switch) and uniform
/// `long_lens` plus lengths whose packed size is just above 2^18 bits (32 KiB, 4096 words) for a codec
/// of the given width: the block and buffer sizes of bulk paths are usually stated in bits or bytes
pub fn long_lens_bits(bits: usize, thorough: bool, seed: u64) -> Vec<usize> {
    let mut v = long_lens(thorough, seed);
    v.push((1usize << 18) / bits + 1 + (seed % 3) as usize);
    if thorough {
        v.push((1usize << 19) / bits + 2);
        v.push((1usize << 20) / bits + 1);
    }
    v
}

/// Symbol positions of an `n`-symbol sequence of `bits`-wide symbols that sit on or next to a
/// power-of-two block boundary (2^11 … 2^18 bits, or that many symbols), counted from the start and
/// from the end: where block-wise code loses or repeats a bit, a symbol or a word.
pub fn boundary_positions(n: usize, bits: usize) -> Vec<usize> {
    let total = n * bits;
    let mut v: Vec<usize> = vec![];
    for k in 11..=18u32 {
        let b = 1usize << k;
        for d in [-1i64, 0, 1] {
            // bit units
            for x in [b as i64 + d, total as i64 - b as i64 + d, total as i64 - b as i64 - 1 + d] {
                if x >= 0 && (x as usize) < total {
                    v.push(x as usize / bits);
                }
            }
            // symbol units
            for x in [b as i64 + d, n as i64 - b as i64 + d] {
                if x >= 0 && (x as usize) < n {
                    v.push(x as usize);
                }
            }
        }
    }
    v.sort();
    v.dedup();
    v
}

/// `a` with the symbol at `p` replaced (built from slices of `a`, so that long operands stay cheap)
pub fn with_symbol<C: crate::codecs::Cm>(a: &bio_seq::prelude::Seq<C>, p: usize, sym: C) -> bio_seq::prelude::Seq<C> {
    let mut b = bio_seq::prelude::Seq::<C>::with_capacity(a.len());
    b.append(&a[..p]);
    b.push(sym);
    b.append(&a[p + 1..]);
    b
}

pub fn long_len(thorough: bool) -> BoxedStrategy<usize> {
    let top = if thorough { 16 } else { 14 };
    let mut around = vec![];
    for k in 10..=top {
        for d in [-1i64, 0, 1, 2] {
            around.push(((1i64 << k) + d) as usize);
        }
    }
    let hi = if thorough { 70_000usize } else { 20_000 };
    prop_oneof![3 => select(around), 1 => 1000..=hi].boxed()
}

/// a sequence of exactly `n` symbols in any representation
/// content of the one-case-per-length families: mostly mixed symbols (a uniform sequence hides most
/// packing mistakes), some run-structured and uniform ones
pub fn codes_n_mixed(m: &'static Model, n: usize) -> BoxedStrategy<Vec<u8>> {
    prop_oneof![
        10 => vec(code(m), n),
        3 => runs(m, n),
        2 => codes_n(m, n),
    ]
    .boxed()
}
pub fn seq_spec_n(id: CodecId, n: usize) -> BoxedStrategy<SeqSpec> {
    let m = id.model();
    (codes_n_mixed(m, n), repr(m)).prop_map(|(codes, repr)| SeqSpec { codes, repr }).boxed()
}

pub fn owned_spec_n(id: CodecId, n: usize) -> BoxedStrategy<SeqSpec> {
    let m = id.model();
    (codes_n_mixed(m, n), owned_repr(m)).prop_map(|(codes, repr)| SeqSpec { codes, repr }).boxed()
}

pub fn codes_long(m: &'static Model, thorough: bool) -> BoxedStrategy<Vec<u8>> {
    long_len(thorough).prop_flat_map(move |n| codes_n(m, n)).boxed()
}

/// a long sequence in any representation
pub fn seq_spec_long(id: CodecId, thorough: bool) -> BoxedStrategy<SeqSpec> {
    let m = id.model();
    (codes_long(m, thorough), repr(m)).prop_map(|(codes, repr)| SeqSpec { codes, repr }).boxed()
}

pub fn owned_spec_long(id: CodecId, thorough: bool) -> BoxedStrategy<SeqSpec> {
    let m = id.model();
    (codes_long(m, thorough), owned_repr(m)).prop_map(|(codes, repr)| SeqSpec { codes, repr }).boxed()
}

pub fn codec() -> BoxedStrategy<CodecId> {
    select(crate::model::ALL_CODECS.to_vec()).boxed()
}
