//! User-defined codecs (3 and 7 bits: widths no built-in codec has; 8 bits with non-ASCII codes; 2 bits and
//! 1 bit with a declaration order that is not the code order), implemented by hand
//! (not through the derive, so that a defect in the derive macro cannot leak into the sequence-level
//! properties). The generic sequence code must treat them like any built-in codec.

use bio_seq::prelude::Codec;

/// 3-bit codec: every bit pattern is a symbol (6 and 7 are alternative codes of the gap)
#[derive(Clone, Copy, Debug, PartialEq, Eq, Hash, PartialOrd, Ord)]
#[repr(u8)]
pub enum Tri {
    A = 0,
    C = 1,
    G = 2,
    T = 3,
    N = 4,
    Gap = 5,
}

impl Codec for Tri {
    const BITS: u8 = 3;
    fn unsafe_from_bits(b: u8) -> Self {
        Self::try_from_bits(b).unwrap_or_else(|| panic!("Unrecognised bit pattern: {b:08b}"))
    }
    fn try_from_bits(b: u8) -> Option<Self> {
        match b {
            0 => Some(Tri::A),
            1 => Some(Tri::C),
            2 => Some(Tri::G),
            3 => Some(Tri::T),
            4 => Some(Tri::N),
            5 | 6 | 7 => Some(Tri::Gap),
            _ => None,
        }
    }
    fn unsafe_from_ascii(c: u8) -> Self {
        Self::try_from_ascii(c).unwrap_or_else(|| panic!("Unrecognised character: {c:#04X?}"))
    }
    fn try_from_ascii(c: u8) -> Option<Self> {
        match c {
            b'A' => Some(Tri::A),
            b'C' => Some(Tri::C),
            b'G' => Some(Tri::G),
            b'T' => Some(Tri::T),
            b'N' => Some(Tri::N),
            b'-' => Some(Tri::Gap),
            _ => None,
        }
    }
    fn to_char(self) -> char {
        match self {
            Tri::A => 'A',
            Tri::C => 'C',
            Tri::G => 'G',
            Tri::T => 'T',
            Tri::N => 'N',
            Tri::Gap => '-',
        }
    }
    fn to_bits(self) -> u8 {
        self as u8
    }
    fn items() -> impl Iterator<Item = Self> {
        vec![Tri::A, Tri::C, Tri::G, Tri::T, Tri::N, Tri::Gap].into_iter()
    }
}

/// 7-bit codec with codes spread over the whole range (most bit patterns are not symbols)
#[derive(Clone, Copy, Debug, PartialEq, Eq, Hash, PartialOrd, Ord)]
#[repr(u8)]
pub enum Sept {
    Stop = 0,
    A = 1,
    C = 2,
    G = 4,
    T = 8,
    R = 16,
    Y = 32,
    K = 64,
    S = 77,
    W = 100,
    Q = 126,
    M = 127,
}

/// 8-bit codec whose bit patterns are NOT the ASCII codes of the display characters
#[derive(Clone, Copy, Debug, PartialEq, Eq, Hash, PartialOrd, Ord)]
#[repr(u8)]
pub enum Oct {
    Plus = 1,
    Minus = 2,
    Both = 3,
    /// a blank: the display character is ASCII white space
    Blank = 0x10,
    /// displayed as a digit; its code is the ASCII code of another symbol's letter
    Zero = 0x61,
    Unknown = 0x80,
    A = 0xC1,
    Z = 0xFF,
}

const OCT: [(Oct, u8); 8] = [(Oct::Plus, b'+'), (Oct::Minus, b'-'), (Oct::Both, b'B'), (Oct::Blank, b' '), (Oct::Zero, b'0'), (Oct::Unknown, b'?'), (Oct::A, b'a'), (Oct::Z, b'Z')];

impl Codec for Oct {
    const BITS: u8 = 8;
    fn unsafe_from_bits(b: u8) -> Self {
        Self::try_from_bits(b).unwrap_or_else(|| panic!("Unrecognised bit pattern: {b:08b}"))
    }
    fn try_from_bits(b: u8) -> Option<Self> {
        OCT.iter().find(|s| s.0 as u8 == b).map(|s| s.0)
    }
    fn unsafe_from_ascii(c: u8) -> Self {
        Self::try_from_ascii(c).unwrap_or_else(|| panic!("Unrecognised character: {c:#04X?}"))
    }
    fn try_from_ascii(c: u8) -> Option<Self> {
        OCT.iter().find(|s| s.1 == c).map(|s| s.0)
    }
    fn to_char(self) -> char {
        OCT.iter().find(|s| s.0 == self).unwrap().1 as char
    }
    fn to_bits(self) -> u8 {
        self as u8
    }
    fn items() -> impl Iterator<Item = Self> {
        OCT.iter().map(|s| s.0).collect::<Vec<_>>().into_iter()
    }
}

/// 2-bit codec whose declaration (and `items()`) order is not the order of its codes
/// (A=00, C=01, T=10, G=11: the `(byte >> 1) & 3` encoding)
#[derive(Clone, Copy, Debug, PartialEq, Eq, Hash, PartialOrd, Ord)]
#[repr(u8)]
pub enum Duo {
    A = 0b00,
    C = 0b01,
    G = 0b11,
    T = 0b10,
}

const DUO: [(Duo, u8); 4] = [(Duo::A, b'A'), (Duo::C, b'C'), (Duo::G, b'G'), (Duo::T, b'T')];

impl Codec for Duo {
    const BITS: u8 = 2;
    fn unsafe_from_bits(b: u8) -> Self {
        Self::try_from_bits(b).unwrap_or_else(|| panic!("Unrecognised bit pattern: {b:08b}"))
    }
    fn try_from_bits(b: u8) -> Option<Self> {
        DUO.iter().find(|s| s.0 as u8 == b).map(|s| s.0)
    }
    fn unsafe_from_ascii(c: u8) -> Self {
        Self::try_from_ascii(c).unwrap_or_else(|| panic!("Unrecognised character: {c:#04X?}"))
    }
    fn try_from_ascii(c: u8) -> Option<Self> {
        DUO.iter().find(|s| s.1 == c).map(|s| s.0)
    }
    fn to_char(self) -> char {
        DUO.iter().find(|s| s.0 == self).unwrap().1 as char
    }
    fn to_bits(self) -> u8 {
        self as u8
    }
    fn items() -> impl Iterator<Item = Self> {
        DUO.iter().map(|s| s.0).collect::<Vec<_>>().into_iter()
    }
}

/// 1-bit codec (purine / pyrimidine), declared with the larger code first
#[derive(Clone, Copy, Debug, PartialEq, Eq, Hash, PartialOrd, Ord)]
#[repr(u8)]
pub enum Uno {
    Y = 1,
    R = 0,
}

const UNO: [(Uno, u8); 2] = [(Uno::Y, b'Y'), (Uno::R, b'R')];

impl Codec for Uno {
    const BITS: u8 = 1;
    fn unsafe_from_bits(b: u8) -> Self {
        Self::try_from_bits(b).unwrap_or_else(|| panic!("Unrecognised bit pattern: {b:08b}"))
    }
    fn try_from_bits(b: u8) -> Option<Self> {
        UNO.iter().find(|s| s.0 as u8 == b).map(|s| s.0)
    }
    fn unsafe_from_ascii(c: u8) -> Self {
        Self::try_from_ascii(c).unwrap_or_else(|| panic!("Unrecognised character: {c:#04X?}"))
    }
    fn try_from_ascii(c: u8) -> Option<Self> {
        UNO.iter().find(|s| s.1 == c).map(|s| s.0)
    }
    fn to_char(self) -> char {
        UNO.iter().find(|s| s.0 == self).unwrap().1 as char
    }
    fn to_bits(self) -> u8 {
        self as u8
    }
    fn items() -> impl Iterator<Item = Self> {
        UNO.iter().map(|s| s.0).collect::<Vec<_>>().into_iter()
    }
}

const SEPT: [(Sept, u8); 12] = [
    (Sept::Stop, b'*'),
    (Sept::A, b'A'),
    (Sept::C, b'C'),
    (Sept::G, b'G'),
    (Sept::T, b'T'),
    (Sept::R, b'R'),
    (Sept::Y, b'Y'),
    (Sept::K, b'K'),
    (Sept::S, b'S'),
    (Sept::W, b'W'),
    (Sept::Q, b'q'),
    (Sept::M, b'M'),
];

impl Codec for Sept {
    const BITS: u8 = 7;
    fn unsafe_from_bits(b: u8) -> Self {
        Self::try_from_bits(b).unwrap_or_else(|| panic!("Unrecognised bit pattern: {b:08b}"))
    }
    fn try_from_bits(b: u8) -> Option<Self> {
        SEPT.iter().find(|s| s.0 as u8 == b).map(|s| s.0)
    }
    fn unsafe_from_ascii(c: u8) -> Self {
        Self::try_from_ascii(c).unwrap_or_else(|| panic!("Unrecognised character: {c:#04X?}"))
    }
    fn try_from_ascii(c: u8) -> Option<Self> {
        SEPT.iter().find(|s| s.1 == c).map(|s| s.0)
    }
    fn to_char(self) -> char {
        SEPT.iter().find(|s| s.0 == self).unwrap().1 as char
    }
    fn to_bits(self) -> u8 {
        self as u8
    }
    fn items() -> impl Iterator<Item = Self> {
        SEPT.iter().map(|s| s.0).collect::<Vec<_>>().into_iter()
    }
}

/// User-defined soft-masked alphabets of the same widths as the built-in ones (5 and 4 bits) but with
/// another layout: the case flag is bit 0. `W` is the width. The generic `Seq<A>: MaskableMut` must
/// serve them and the built-in codecs side by side, whichever is used first in a process.
#[derive(Clone, Copy, Debug, PartialEq, Eq, Hash, PartialOrd, Ord)]
pub struct Soft<const W: u8>(pub u8);

const SOFT_UPPER: [u8; 7] = [b'A', b'C', b'G', b'T', b'N', b'R', b'Y'];

impl<const W: u8> Soft<W> {
    fn letters() -> usize {
        if W == 5 {
            7
        } else {
            5
        }
    }
}

impl<const W: u8> Codec for Soft<W> {
    const BITS: u8 = W;
    fn unsafe_from_bits(b: u8) -> Self {
        Self::try_from_bits(b).unwrap_or_else(|| panic!("Unrecognised bit pattern: {b:08b}"))
    }
    fn try_from_bits(b: u8) -> Option<Self> {
        // code = letter index * 2 + flag; the gap is the last even code and has no lower case
        let gap = (Self::letters() as u8) * 2;
        if b < gap || b == gap {
            Some(Soft(b))
        } else {
            None
        }
    }
    fn unsafe_from_ascii(c: u8) -> Self {
        Self::try_from_ascii(c).unwrap_or_else(|| panic!("Unrecognised character: {c:#04X?}"))
    }
    fn try_from_ascii(c: u8) -> Option<Self> {
        if c == b'-' {
            return Some(Soft((Self::letters() as u8) * 2));
        }
        let up = c.to_ascii_uppercase();
        SOFT_UPPER[..Self::letters()].iter().position(|x| *x == up).map(|i| Soft(i as u8 * 2 + u8::from(c != up)))
    }
    fn to_char(self) -> char {
        if self.0 == (Self::letters() as u8) * 2 {
            return '-';
        }
        let c = SOFT_UPPER[(self.0 / 2) as usize];
        (if self.0 & 1 == 1 { c.to_ascii_lowercase() } else { c }) as char
    }
    fn to_bits(self) -> u8 {
        self.0
    }
    fn items() -> impl Iterator<Item = Self> {
        (0..=(Self::letters() as u8) * 2).map(Soft)
    }
}

impl<const W: u8> bio_seq::MaskableMut for Soft<W> {
    fn mask(&mut self) {
        if self.0 != (Self::letters() as u8) * 2 {
            self.0 |= 1;
        }
    }
    fn unmask(&mut self) {
        if self.0 != (Self::letters() as u8) * 2 {
            self.0 &= !1;
        }
    }
}
