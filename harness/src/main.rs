use bsv::obs::{install_panic_hook, Ctx, Mode, Tier};
use std::io::Write;
use std::time::Instant;

fn usage() -> ! {
    eprintln!("usage: bsv <PROP> <quick|thorough> [--seed N] [--out FILE] [--shard i/n] [--known a,b] [--replay FILE] [--sub NAME] [--order N] [--trace FILE] [--divide N] [--maxlen N]");
    std::process::exit(2);
}

fn main() {
    let args: Vec<String> = std::env::args().collect();
    if args.len() < 3 {
        usage();
    }
    if args[1] == "gen" {
        // bsv gen <what> <seed> <n> <outdir>
        if args.len() < 6 {
            usage();
        }
        match bsv::progs::generate(&args[2], args[3].parse().unwrap_or(0), args[4].parse().unwrap_or(10), &args[5]) {
            Ok(()) => std::process::exit(0),
            Err(e) => {
                eprintln!("{e}");
                std::process::exit(2)
            }
        }
    }
    if args[1] == "fuzz-replay" {
        // bsv fuzz-replay <target> <file>: run one saved fuzzer input through the same oracle
        if args.len() < 4 {
            usage();
        }
        let data = std::fs::read(&args[3]).unwrap_or_else(|e| {
            eprintln!("cannot read {}: {e}", args[3]);
            std::process::exit(2)
        });
        match bsv::fuzzdec::run(&args[2], &data) {
            Ok(()) => std::process::exit(0),
            Err(m) => {
                println!("{m}");
                std::process::exit(1)
            }
        }
    }
    if args[1] == "gen-one" {
        if args.len() < 5 {
            usage();
        }
        let item = std::fs::read_to_string(&args[3]).unwrap_or_default();
        match bsv::progs::generate_one(&args[2], &item, &args[4]) {
            Ok(()) => std::process::exit(0),
            Err(e) => {
                eprintln!("{e}");
                std::process::exit(2)
            }
        }
    }
    let prop = args[1].clone();
    let tier = match args[2].as_str() {
        "quick" => Tier::Quick,
        "thorough" => Tier::Thorough,
        _ => usage(),
    };
    let mut seed = 0u64;
    let mut out: Option<String> = None;
    let mut ctx = Ctx::new(&prop, tier, 0);
    let mut i = 3;
    while i < args.len() {
        let a = args[i].as_str();
        let v = args.get(i + 1).cloned().unwrap_or_default();
        match a {
            "--seed" => seed = v.parse().unwrap_or(0),
            "--out" => out = Some(v),
            "--shard" => {
                let mut it = v.split('/');
                ctx.shard = it.next().and_then(|x| x.parse().ok()).unwrap_or(0);
                ctx.nshards = it.next().and_then(|x| x.parse().ok()).unwrap_or(1);
            }
            "--known" => ctx.known = v.split(',').filter(|s| !s.is_empty()).map(|s| s.to_string()).collect(),
            "--sub" => ctx.only_sub = Some(v),
            "--order" => ctx.order = v.parse().unwrap_or(0),
            "--divide" => ctx.divide = v.parse().unwrap_or(1),
            "--maxlen" => ctx.maxlen = v.parse().unwrap_or(usize::MAX),
            "--trace" => {
                let _ = bsv::obs::TRACE.set(v);
            }
            "--replay" => {
                let txt = std::fs::read_to_string(&v).unwrap_or_else(|e| {
                    eprintln!("cannot read replay file {v}: {e}");
                    std::process::exit(2)
                });
                let j: serde_json::Value = serde_json::from_str(&txt).unwrap_or_else(|e| {
                    eprintln!("cannot parse replay file {v}: {e}");
                    std::process::exit(2)
                });
                ctx.mode = Mode::Replay { sub: j["sub"].as_str().unwrap_or("").to_string(), case: j["case"].clone() };
                ctx.order = j["order"].as_u64().unwrap_or(0) as u32;
            }
            _ => usage(),
        }
        i += 2;
    }
    ctx.seed = seed;
    install_panic_hook();
    let t0 = Instant::now();
    // the property runs on a thread with the default stack of spawned threads (2 MiB): what the worker
    // and test threads of the library's users get
    let (known_prop, mut ctx) = std::thread::Builder::new()
        .name("property".into())
        .stack_size(2 << 20)
        .spawn(move || {
            let ok = bsv::props::run(&mut ctx);
            (ok, ctx)
        })
        .expect("spawn")
        .join()
        .unwrap_or_else(|_| {
            eprintln!("the property thread panicked outside a case");
            std::process::exit(2)
        });
    if !known_prop {
        eprintln!("unknown property {prop}");
        std::process::exit(2);
    }
    let wall = t0.elapsed().as_secs_f64();
    let fb = bsv::codecs::FALLBACKS.with(|f| f.get());
    if fb > 0 {
        ctx.classes.insert("provenance_fallback".to_string(), fb);
    }
    let j = ctx.to_json(wall);
    if let Some(path) = out {
        let mut f = std::fs::File::create(&path).expect("cannot create output file");
        f.write_all(serde_json::to_string(&j).unwrap().as_bytes()).unwrap();
        // side file: hashes of the distinct non-trivial cases, so shards/profiles can be united exactly
        let mut h = std::fs::File::create(format!("{path}.nt")).expect("cannot create nt file");
        let mut buf = Vec::with_capacity(ctx.nt.len() * 8);
        for x in &ctx.nt {
            buf.extend_from_slice(&x.to_le_bytes());
        }
        h.write_all(&buf).unwrap();
    } else {
        println!("{}", serde_json::to_string_pretty(&j).unwrap());
    }
    for f in &ctx.failures {
        eprintln!("FAIL {} sub={} site={} :: {}", ctx.prop, f.sub, f.site, f.reason);
    }
    std::process::exit(if ctx.failures.is_empty() { 0 } else { 1 });
}
