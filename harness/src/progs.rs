//! Program generators for the "programs" quantifier (C16, C17): Rust sources are generated from
//! proptest strategies (fixed seed), compiled with the working tree's real proc-macros by the
//! driver, and executed; every item carries its expectation computed here from the model.

use crate::model::{CodecId, Model};
use proptest::collection::vec;
use proptest::prelude::*;
use proptest::sample::select;
use proptest::strategy::ValueTree;
use proptest::test_runner::{Config, RngSeed, TestRunner};
use serde::{Deserialize, Serialize};
use std::fmt::Write as _;

fn runner(seed: u64) -> TestRunner {
    TestRunner::new(Config { rng_seed: RngSeed::Fixed(seed), failure_persistence: None, ..Config::default() })
}

fn sample<T: std::fmt::Debug>(r: &mut TestRunner, s: &impl Strategy<Value = T>) -> T {
    s.new_tree(r).expect("strategy").current()
}

/// the checking prelude shared by generated programs
pub const PRELUDE: &str = r#"
#![allow(dead_code, unused_variables, unused_imports, non_camel_case_types, non_snake_case, unreachable_patterns)]
use bio_seq::prelude::*;
use std::hash::{Hash, Hasher};

#[derive(Default, PartialEq, Eq, Debug)]
pub struct Rec(pub Vec<u8>);
impl Hasher for Rec {
    fn finish(&self) -> u64 { 0 }
    fn write(&mut self, b: &[u8]) { self.0.push(0); self.0.extend_from_slice(&(b.len() as u32).to_le_bytes()); self.0.extend_from_slice(b); }
    fn write_u8(&mut self, i: u8) { self.0.push(1); self.0.push(i); }
    fn write_u16(&mut self, i: u16) { self.0.push(2); self.0.extend_from_slice(&i.to_le_bytes()); }
    fn write_u32(&mut self, i: u32) { self.0.push(3); self.0.extend_from_slice(&i.to_le_bytes()); }
    fn write_u64(&mut self, i: u64) { self.0.push(4); self.0.extend_from_slice(&i.to_le_bytes()); }
    fn write_u128(&mut self, i: u128) { self.0.push(5); self.0.extend_from_slice(&i.to_le_bytes()); }
    fn write_usize(&mut self, i: usize) { self.0.push(6); self.0.extend_from_slice(&i.to_le_bytes()); }
}
pub fn rec<T: Hash + ?Sized>(t: &T) -> Rec { let mut r = Rec::default(); t.hash(&mut r); r }

pub fn esc(s: &str) -> String { s.replace('\\', "\\\\").replace('"', "\\\"") }

pub fn report(id: usize, r: Result<(), String>) {
    match r {
        Ok(()) => println!("{{\"id\":{id},\"ok\":true}}"),
        Err(m) => println!("{{\"id\":{id},\"ok\":false,\"msg\":\"{}\"}}", esc(&m).replace('\n', " ")),
    }
}

pub fn guard(id: usize, f: impl FnOnce() -> Result<(), String> + std::panic::UnwindSafe) {
    let r = std::panic::catch_unwind(f);
    match r {
        Ok(r) => report(id, r),
        Err(e) => {
            let m = if let Some(s) = e.downcast_ref::<&str>() { s.to_string() } else if let Some(s) = e.downcast_ref::<String>() { s.clone() } else { "panic".into() };
            report(id, Err(format!("panicked: {m}")));
        }
    }
}

/// a static literal against the runtime parse of the same text (and against the expected text itself)
pub fn check_seq<A: Codec>(lit: &SeqSlice<A>, text: &str, display: &str) -> Result<(), String> {
    let parsed: Seq<A> = Seq::try_from(text).map_err(|e| format!("runtime parser rejected {text:?}: {e:?}"))?;
    if lit.len() != text.len() { return Err(format!("literal has {} symbols, the text has {}", lit.len(), text.len())); }
    if lit.len() != parsed.len() { return Err(format!("literal length {} != parsed length {}", lit.len(), parsed.len())); }
    if !(*lit == parsed) || !(parsed == *lit) || !(parsed == lit) || !(lit == parsed) { return Err(format!("literal != parsed: {} vs {}", lit, parsed)); }
    if lit.to_string() != display { return Err(format!("literal displays as {:?}, expected {:?}", lit.to_string(), display)); }
    if parsed.to_string() != display { return Err(format!("parsed displays as {:?}, expected {:?}", parsed.to_string(), display)); }
    for i in 0..lit.len() { if lit.nth(i) != parsed.nth(i) { return Err(format!("symbol {i} differs: {:?} vs {:?}", lit.nth(i), parsed.nth(i))); } }
    if rec(lit) != rec(&parsed) { return Err("literal and parsed sequence feed different data to a hasher".into()); }
    if lit.is_empty() != text.is_empty() { return Err("is_empty disagrees".into()); }
    if !text.is_empty() { if !(*lit == text) { return Err("literal != its own text (&str comparison)".into()); } }
    Ok(())
}

/// a derived codec against its declaration's expected tables
pub fn check_codec<C: Codec + std::panic::RefUnwindSafe>(bits: u8, from_bits: &[i16; 256], from_ascii: &[i16; 256], to_bits: &[u8], to_char: &[u8], valid: &[&str], invalid: &[(&str, u8)]) -> Result<(), String> {
    if C::BITS != bits { return Err(format!("BITS = {}, expected {bits}", C::BITS)); }
    let items: Vec<C> = C::items().collect();
    if items.len() != to_bits.len() { return Err(format!("items() has {} symbols, declaration has {}", items.len(), to_bits.len())); }
    for (i, it) in items.iter().enumerate() {
        if it.to_bits() != to_bits[i] { return Err(format!("items()[{i}].to_bits() = {}, expected {} (declaration order)", it.to_bits(), to_bits[i])); }
        if it.to_char() as u32 != to_char[i] as u32 { return Err(format!("items()[{i}].to_char() = {:?}, expected {:?}", it.to_char(), to_char[i] as char)); }
    }
    let idx = |c: C| items.iter().position(|x| *x == c).map(|p| p as i16).unwrap_or(-2);
    for b in 0..=255u8 {
        let got = C::try_from_bits(b).map(idx).unwrap_or(-1);
        if got != from_bits[b as usize] { return Err(format!("try_from_bits({b:#010b}) = variant {got}, expected {}", from_bits[b as usize])); }
        if from_bits[b as usize] >= 0 {
            match std::panic::catch_unwind(|| C::unsafe_from_bits(b)) {
                Ok(v) => if idx(v) != from_bits[b as usize] { return Err(format!("unsafe_from_bits({b:#010b}) = variant {}, expected {}", idx(v), from_bits[b as usize])); },
                Err(_) => return Err(format!("unsafe_from_bits({b:#010b}) panicked although try_from_bits accepts it")),
            }
        }
        let got = C::try_from_ascii(b).map(idx).unwrap_or(-1);
        if got != from_ascii[b as usize] { return Err(format!("try_from_ascii({b:#04x}) = variant {got}, expected {}", from_ascii[b as usize])); }
        if from_ascii[b as usize] >= 0 {
            match std::panic::catch_unwind(|| C::unsafe_from_ascii(b)) {
                Ok(v) => if idx(v) != from_ascii[b as usize] { return Err(format!("unsafe_from_ascii({b:#04x}) = variant {}, expected {}", idx(v), from_ascii[b as usize])); },
                Err(_) => return Err(format!("unsafe_from_ascii({b:#04x}) panicked although try_from_ascii accepts it")),
            }
        }
    }
    // sequences over the derived codec obey the round-trip laws of the built-ins
    for s in valid {
        let q: Seq<C> = Seq::try_from(*s).map_err(|e| format!("Seq::try_from({s:?}) failed: {e:?}"))?;
        if q.len() != s.len() { return Err(format!("Seq::try_from({s:?}).len() = {}", q.len())); }
        if q.to_string() != *s { return Err(format!("Seq::try_from({s:?}) displays as {:?}", q.to_string())); }
        let again: Seq<C> = Seq::try_from(q.to_string().as_str()).map_err(|e| format!("re-parsing failed: {e:?}"))?;
        if again != q { return Err(format!("parse(display(s)) != s for {s:?}")); }
        for (i, ch) in s.bytes().enumerate() { if q.nth(i).to_char() as u32 != ch as u32 { return Err(format!("symbol {i} of {s:?} is {:?}", q.nth(i).to_char())); } }
        let r: Seq<C> = q.to_rev();
        let rs: String = s.chars().rev().collect();
        if r.to_string() != rs { return Err(format!("reverse of {s:?} displays as {:?}", r.to_string())); }
        let mid = s.len() / 2;
        if q[mid..].to_string() != s[mid..] { return Err(format!("slice [{mid}..] of {s:?} displays as {:?}", q[mid..].to_string())); }
    }
    for (s, bad) in invalid {
        match Seq::<C>::try_from(*s) {
            Err(ParseBioError::UnrecognisedBase(b)) => if b != *bad { return Err(format!("Seq::try_from({s:?}) reported byte {b:#04x}, the first non-symbol byte is {bad:#04x}")); },
            Err(e) => return Err(format!("Seq::try_from({s:?}) returned {e:?}")),
            Ok(q) => return Err(format!("Seq::try_from({s:?}) accepted an invalid string as {q}")),
        }
    }
    Ok(())
}
"#;

// ---------------------------------------------------------------------------------------------
// C16

#[derive(Clone, Debug, Serialize, Deserialize)]
pub struct LitItem {
    pub id: usize,
    /// "dna" | "iupac" | "kmer" | "kmer_u64" | "kmer_u128"
    pub kind: String,
    pub text: String,
    /// expected to compile (positive) or not (negative); controls in the negative file are valid
    pub valid: bool,
    /// 1-based line of the macro invocation in the generated file
    pub line: usize,
    pub nontrivial: bool,
}

fn alpha(kind: &str) -> &'static str {
    if kind == "iupac" {
        "ACGTRYSWKMBDHVN-"
    } else {
        "ACGT"
    }
}

thread_local! {
    /// long literals (slow to compile) are generated only for the larger, thorough-tier programs
    static LONG_LITERALS: std::cell::Cell<bool> = const { std::cell::Cell::new(false) };
}

pub fn enable_long_literals() {
    LONG_LITERALS.with(|l| l.set(true));
}

fn lit_len(kind: &str) -> BoxedStrategy<usize> {
    match kind {
        "kmer" | "kmer_u64" => prop_oneof![3 => 1..=32usize, 2 => select(vec![1usize, 2, 15, 16, 17, 31, 32])].boxed(),
        "kmer_u128" => prop_oneof![3 => 1..=64usize, 2 => select(vec![1usize, 31, 32, 33, 63, 64])].boxed(),
        _ => {
            // long literals stay below the macros' own limit (bitarr! recursion: 128 words)
            let long: Vec<usize> = if kind == "iupac" { vec![511, 512, 513, 523, 700, 1024, 1025] } else { vec![1023, 1024, 1025, 1030, 1500, 2047, 2049] };
            let mut opts: Vec<(u32, BoxedStrategy<usize>)> = vec![
                (2, (0..=3usize).boxed()),
                (5, select(vec![15usize, 16, 17, 31, 32, 33, 47, 48, 49, 63, 64, 65, 95, 96, 97, 127, 128, 129, 191, 192, 193, 255, 256, 257]).boxed()),
                (4, (0..=300usize).boxed()),
            ];
            if LONG_LITERALS.with(|l| l.get()) {
                opts.push((1, select(long).boxed()));
            }
            proptest::strategy::Union::new_weighted(opts).boxed()
        }
    }
}

fn valid_text(kind: &'static str) -> BoxedStrategy<String> {
    let a: Vec<char> = alpha(kind).chars().collect();
    let last = *a.last().unwrap();
    let first = a[0];
    lit_len(kind)
        .prop_flat_map(move |n| {
            let a = a.clone();
            let a2 = a.clone();
            prop_oneof![
                8 => vec(select(a), n).prop_map(|v| v.into_iter().collect::<String>()),
                1 => Just(std::iter::repeat(last).take(n).collect::<String>()),
                1 => Just(std::iter::repeat(first).take(n).collect::<String>()),
                // every symbol at every position mod 16: a rotating alphabet
                2 => (0..16usize).prop_map(move |r| (0..n).map(|i| a2[(i + r) % a2.len()]).collect::<String>()),
            ]
        })
        .boxed()
}

/// one offending character for a macro's alphabet (never `X` for iupac!, which the macro accepts by design)
fn offender(kind: &'static str) -> BoxedStrategy<String> {
    let ok: Vec<char> = alpha(kind).chars().collect();
    let mut ascii: Vec<char> = (0u8..128).map(|b| b as char).filter(|c| !ok.contains(c)).collect();
    if kind == "iupac" {
        ascii.retain(|c| *c != 'X');
    }
    let lower: Vec<char> = ok.iter().filter(|c| c.is_ascii_alphabetic()).map(|c| c.to_ascii_lowercase()).collect();
    let letters: Vec<char> = ascii.iter().copied().filter(|c| c.is_ascii_uppercase()).collect();
    let digits_ws: Vec<char> = vec!['0', '1', '7', ' ', '\t', '\n', '\r', '\0', '.', '*', '?', '_', '\\', '"', '\''];
    let digits_ws: Vec<char> = digits_ws.into_iter().filter(|c| !ok.contains(c)).collect();
    // non-ASCII characters whose code point truncated to 8 (or 16) bits is a character of the alphabet
    let aliases: Vec<char> = ok
        .iter()
        .flat_map(|c| {
            let b = *c as u32;
            [0x100 + b, 0x400 + b, 0x2200 + b, 0x1_0000 + b, 0x1_0400 + b, 0x1_F600 + b]
        })
        .filter_map(char::from_u32)
        .collect();
    prop_oneof![
        3 => select(aliases).prop_map(|c| c.to_string()),
        3 => select(lower).prop_map(|c| c.to_string()),
        3 => select(letters).prop_map(|c| c.to_string()),
        2 => select(digits_ws).prop_map(|c| c.to_string()),
        2 => select(ascii).prop_map(|c| c.to_string()),
        3 => select(vec!["é", "Ä", "€", "😀", "Ａ", "\u{0410}", "\u{00a0}", "ｔ", "\u{0391}", "\u{200b}"]).prop_map(|s| s.to_string()),
    ]
    .boxed()
}

fn invalid_text(kind: &'static str) -> BoxedStrategy<(String, bool)> {
    (valid_text(kind), offender(kind), any::<u16>(), any::<bool>())
        .prop_map(|(v, bad, pos, replace)| {
            let chars: Vec<char> = v.chars().collect();
            let at = crate::obs::scale16(pos, chars.len());
            let mut out: String = chars[..at].iter().collect();
            out.push_str(&bad);
            let skip = if replace && at < chars.len() { 1 } else { 0 };
            out.extend(chars[(at + skip).min(chars.len())..].iter());
            (out, at >= 1)
        })
        .boxed()
}

pub fn valid_text_pub(kind: &'static str) -> BoxedStrategy<String> {
    valid_text(kind)
}
pub fn invalid_text_pub(kind: &'static str) -> BoxedStrategy<(String, bool)> {
    invalid_text(kind)
}

fn macro_call(kind: &str, text: &str) -> String {
    match kind {
        "dna" => format!("dna!({text:?})"),
        "iupac" => format!("iupac!({text:?})"),
        "kmer" => format!("kmer!({text:?})"),
        "kmer_u64" => format!("kmer!({text:?}, u64)"),
        _ => format!("kmer!({text:?}, u128)"),
    }
}

/// positive program: every literal is checked against the runtime parser when the program runs
pub fn gen_c16_pos(seed: u64, n: usize) -> (String, Vec<LitItem>) {
    let mut r = runner(seed);
    let kinds: [&'static str; 5] = ["dna", "iupac", "kmer", "kmer_u64", "kmer_u128"];
    // fixed boundary literals first, then generated ones
    let mut fixed: Vec<(&'static str, String)> = vec![("dna", String::new()), ("iupac", String::new()), ("iupac", "-".into()), ("iupac", "ACGTRYSWKMBDHVN-".into())];
    for k in [32usize, 31, 1] {
        fixed.push(("kmer", "TGCA".repeat(8)[..k].to_string()));
        fixed.push(("kmer_u64", "GTCA".repeat(8)[..k].to_string()));
    }
    for k in [64usize, 63, 33, 32, 1] {
        fixed.push(("kmer_u128", "TTGCAGCA".repeat(8)[..k].to_string()));
    }
    fixed.push(("kmer_u128", "T".repeat(64)));
    // long literals with a partial last word whose tail symbols are not the zero code
    fixed.push(("dna", "ACGT".repeat(257) + "TG"));
    fixed.push(("iupac", "ACGTRYSWKMBDHVN-".repeat(32) + "NVB"));
    if n >= 180 {
        LONG_LITERALS.with(|l| l.set(true));
        fixed.push(("dna", "GATTACA".repeat(200) + "CCT"));
        fixed.push(("iupac", "N-WS".repeat(200) + "BDHVN"));
    }
    let mut list: Vec<(String, String)> = vec![];
    for i in 0..n {
        let (kind, text) = if i < fixed.len() {
            fixed[i].clone()
        } else {
            let kind = kinds[sample(&mut r, &prop_oneof![4 => Just(0usize), 4 => Just(1usize), 1 => Just(2usize), 1 => Just(3usize), 1 => Just(4usize)])];
            (kind, sample(&mut r, &valid_text(kind)))
        };
        list.push((kind.to_string(), text));
    }
    render_c16_pos(&list)
}

pub fn render_c16_pos(list: &[(String, String)]) -> (String, Vec<LitItem>) {
    let mut src = String::new();
    src.push_str(PRELUDE);
    let mut items = vec![];
    let mut body = String::new();
    for (i, (kind, text)) in list.iter().enumerate() {
        let kind = kind.as_str();
        let lines_before = src.lines().count() + body.lines().count();
        let id = i;
        let call = macro_call(kind, text);
        let fun = match kind {
            "dna" | "iupac" => format!("fn item_{id}() -> Result<(), String> {{\n    let lit = {call};\n    check_seq(lit, {text:?}, {text:?})\n}}\n"),
            _ => {
                let st = match kind {
                    "kmer" => "usize",
                    "kmer_u64" => "u64",
                    _ => "u128",
                };
                let k = text.len();
                format!(
                    "fn item_{id}() -> Result<(), String> {{\n    let lit = {call};\n    let parsed = Kmer::<Dna, {k}, {st}>::from_str({text:?}).map_err(|e| format!(\"{{e:?}}\"))?;\n    if !(lit == parsed) || lit.bs != parsed.bs {{ return Err(format!(\"kmer literal {{}} (bs={{:#x}}) != parsed {{}} (bs={{:#x}})\", lit, lit.bs, parsed, parsed.bs)); }}\n    if lit.to_string() != {text:?} {{ return Err(format!(\"kmer literal displays as {{}}\", lit)); }}\n    if rec(&lit) != rec(&parsed) {{ return Err(\"kmer literal hashes differently from the parsed k-mer\".into()); }}\n    let s: Seq<Dna> = Seq::try_from({text:?}).unwrap();\n    if !(lit == *s.as_ref()) || rec(&lit) != rec(&s) {{ return Err(\"kmer literal differs from / hashes differently than the parsed sequence\".into()); }}\n    if lit.len() != {k} {{ return Err(\"len\".into()); }}\n    Ok(())\n}}\n"
                )
            }
        };
        let line = lines_before + 2;
        body.push_str(&fun);
        let distinct = {
            let mut c: Vec<char> = text.chars().collect();
            c.sort();
            c.dedup();
            c.len()
        };
        let bits = if kind == "iupac" { 4 } else { 2 };
        items.push(LitItem { id, kind: kind.to_string(), text: text.clone(), valid: true, line, nontrivial: text.len() * bits > 64 && distinct >= 2 });
    }
    src.push_str(&body);
    src.push_str("fn main() {\n");
    for it in &items {
        let _ = writeln!(src, "    guard({}, item_{});", it.id, it.id);
    }
    src.push_str("    println!(\"{{\\\"done\\\":true}}\");\n}\n");
    (src, items)
}

/// negative program: invalid literals, one per line, interleaved with valid controls
pub fn gen_c16_neg(seed: u64, n: usize) -> (String, Vec<LitItem>) {
    let mut r = runner(seed ^ 0x5eed);
    let mut list: Vec<(String, String, bool, bool)> = vec![];
    // fixed: the classes named by the property
    let mut fixed: Vec<(&'static str, String)> = vec![];
    for bad in ["N", "U", "X", "a", "c", "g", "t", "n", "0", " ", "\n", "é", "Ａ", "-", "R", "\u{141}", "\u{10443}"] {
        fixed.push(("dna", bad.to_string()));
        fixed.push(("dna", format!("ACGT{bad}")));
        fixed.push(("dna", format!("{}{bad}ACGT", "ACGT".repeat(8))));
    }
    for bad in ["U", "a", "n", "x", "1", " ", ".", "*", "é", "\u{0410}", "Z", "E", "J", "O", "\u{152}", "\u{22d}"] {
        fixed.push(("iupac", bad.to_string()));
        fixed.push(("iupac", format!("ACGTN{bad}")));
        fixed.push(("iupac", format!("{}{bad}RYSW", "ACGTRYSWKMBDHVN-".repeat(2))));
    }
    fixed.push(("kmer", "ACGN".into()));
    fixed.push(("kmer_u64", "ACgT".into()));
    fixed.push(("kmer_u128", "ACGTé".into()));
    let mut neg_idx = 0usize;
    for i in 0..n {
        let kinds: [&'static str; 5] = ["dna", "iupac", "kmer", "kmer_u64", "kmer_u128"];
        let control = i % 4 == 3;
        let (kind, text, nt) = if control {
            let kind = kinds[i / 4 % 2];
            (kind, sample(&mut r, &valid_text(kind)), false)
        } else if neg_idx < fixed.len() {
            let f = &fixed[neg_idx];
            neg_idx += 1;
            (f.0, f.1.clone(), f.1.chars().count() > 1)
        } else {
            let kind = kinds[sample(&mut r, &prop_oneof![5 => Just(0usize), 5 => Just(1usize), 1 => Just(2usize), 1 => Just(4usize)])];
            let (t, nt) = sample(&mut r, &invalid_text(kind));
            (kind, t, nt)
        };
        list.push((kind.to_string(), text, control, nt));
    }
    render_c16_neg(&list)
}

pub fn render_c16_neg(list: &[(String, String, bool, bool)]) -> (String, Vec<LitItem>) {
    let mut src = String::from("#![allow(unused_variables, dead_code, unused_imports)]\nuse bio_seq::prelude::*;\nfn main() {\n");
    let mut items = vec![];
    for (i, (kind, text, valid, nt)) in list.iter().enumerate() {
        let line = src.lines().count() + 1;
        let _ = writeln!(src, "    let v{i} = {};", macro_call(kind, text));
        items.push(LitItem { id: i, kind: kind.clone(), text: text.clone(), valid: *valid, line, nontrivial: *nt });
    }
    src.push_str("}\n");
    (src, items)
}

// ---------------------------------------------------------------------------------------------
// C17

#[derive(Clone, Debug, Serialize, Deserialize)]
pub struct Variant {
    pub ident: String,
    pub disc: u8,
    pub disc_src: String,
    pub alts: Vec<(u8, String)>,
    pub display: Option<u8>,
}

#[derive(Clone, Debug, Serialize, Deserialize)]
pub struct EnumDecl {
    pub id: usize,
    pub name: String,
    pub variants: Vec<Variant>,
    pub bits: Option<u8>,
    /// expected: the declaration compiles (true) or must be rejected (false)
    pub valid: bool,
    pub why_invalid: String,
    pub line_start: usize,
    pub line_end: usize,
    pub nontrivial: bool,
    pub source: String,
}

fn min_width(max: u8) -> u8 {
    (8 - max.leading_zeros()) as u8
}

fn render_int(v: u8, style: u8) -> String {
    match style % 9 {
        0 | 1 => format!("{v}"),
        2 => format!("{v:#b}"),
        3 => format!("0b{:04b}_{:04b}", v >> 4, v & 15),
        4 => format!("{v:#x}"),
        5 => format!("0x{v:02X}"),
        6 => format!("{v:#o}"),
        7 => {
            if v >= 100 {
                format!("{}_{:02}", v / 100, v % 100)
            } else {
                format!("{v}u8")
            }
        }
        _ => {
            if v.is_ascii_graphic() && v != b'\'' && v != b'\\' {
                format!("b'{}'", v as char)
            } else {
                format!("b'\\x{v:02x}'")
            }
        }
    }
}

fn render_char(c: u8) -> String {
    match c {
        b'\'' => "'\\''".to_string(),
        b'\\' => "'\\\\'".to_string(),
        _ => format!("'{}'", c as char),
    }
}

fn decl_strategy() -> BoxedStrategy<(Vec<(u8, u8, Vec<(u8, u8)>, Option<u8>, u8)>, Option<u8>, Vec<u8>)> {
    // raw material; `finish` repairs it into a well-formed declaration (distinctness by construction)
    let variant = (
        prop_oneof![6 => any::<u8>(), 2 => select(vec![0u8, 1, 2, 3, 7, 8, 15, 16, 31, 32, 63, 64, 127, 128, 254, 255])],
        any::<u8>(),
        vec((any::<u8>(), any::<u8>()), 0..4),
        proptest::option::weighted(0.35, 0x20u8..0x7f),
        any::<u8>(),
    );
    let n = prop_oneof![3 => 2..=6usize, 3 => 6..=20usize, 1 => 20..=40usize];
    (n.prop_flat_map(move |n| vec(variant.clone(), n)), proptest::option::weighted(0.5, 0u8..=8), vec(any::<u8>(), 8)).boxed()
}

fn finish(id: usize, raw: (Vec<(u8, u8, Vec<(u8, u8)>, Option<u8>, u8)>, Option<u8>, Vec<u8>)) -> EnumDecl {
    let (vars, bits_choice, salt) = raw;
    let small = salt[0] % 3 == 0; // a third of the declarations keep all codes small (narrow widths 1..4)
    let cap: u16 = if small { [2u16, 4, 8, 16][(salt[1] % 4) as usize] } else { 256 };
    let mut used_codes: Vec<u8> = vec![];
    let mut used_chars: Vec<u8> = vec![];
    let mut out: Vec<Variant> = vec![];
    let letters: Vec<u8> = (b'A'..=b'Z').chain(b'a'..=b'z').collect();
    // discriminants first (pairwise distinct)
    let mut discs = vec![];
    for v in &vars {
        if discs.len() as u16 >= cap {
            break;
        }
        let mut d = (v.0 as u16 % cap) as u8;
        while used_codes.contains(&d) {
            d = ((d as u16 + 1) % cap) as u8;
        }
        used_codes.push(d);
        discs.push(d);
    }
    if discs.len() < 2 {
        for d in 0..cap as u8 {
            if !used_codes.contains(&d) && discs.len() < 2 {
                used_codes.push(d);
                discs.push(d);
            }
        }
    }
    let max = *discs.iter().max().unwrap();
    let minw = min_width(max);
    let width = match bits_choice {
        Some(extra) => Some((minw + extra % (9 - minw)).min(8)),
        None => None,
    };
    let w = width.unwrap_or(minw);
    let limit: u16 = 1u16 << w;
    for (i, d) in discs.iter().enumerate() {
        let v = &vars[i.min(vars.len() - 1)];
        // display character / identifier initial: pairwise distinct over the whole enum
        let display = v.3.filter(|c| !used_chars.contains(c));
        let mut initial = letters[(v.4 as usize) % letters.len()];
        if display.is_none() {
            while used_chars.contains(&initial) {
                initial = letters[(letters.iter().position(|x| *x == initial).unwrap() + 1) % letters.len()];
            }
            used_chars.push(initial);
        } else {
            used_chars.push(display.unwrap());
        }
        let ident = format!("{}{}{}", initial as char, ["x", "Y", "_z", "q", ""][(v.4 % 5) as usize], i);
        out.push(Variant { ident, disc: *d, disc_src: render_int(*d, v.1), alts: vec![], display });
    }
    // if there are more variants than distinct initials allow, trailing ones get display chars; ensure all chars distinct
    // alternatives: distinct from every code in use, below 2^width
    for (i, v) in vars.iter().enumerate().take(out.len()) {
        for (a, style) in &v.2 {
            let a16 = *a as u16 % limit;
            let a8 = a16 as u8;
            if !used_codes.contains(&a8) && (a8 as u16) < limit {
                used_codes.push(a8);
                // any literal form is a valid pattern inside #[alt(..)], byte literals included
                out[i].alts.push((a8, render_int(a8, *style)));
            }
        }
    }
    let nontrivial = out.iter().any(|v| !v.alts.is_empty() || v.display.is_some()) || width.is_some() && width != Some(minw) || max >= 128;
    EnumDecl { id, name: format!("E{id}"), variants: out, bits: width, valid: true, why_invalid: String::new(), line_start: 0, line_end: 0, nontrivial, source: String::new() }
}

fn render_enum(d: &EnumDecl) -> String {
    let mut s = String::new();
    // attributes that are not the derive's own (doc comments, lints) may stand anywhere around them
    if d.id % 3 == 1 {
        s.push_str("/// A generated alphabet.\n");
    }
    s.push_str("#[derive(Clone, Copy, Debug, PartialEq, Eq, Hash, Codec)]\n");
    if d.id % 4 == 2 {
        s.push_str("#[allow(dead_code)]\n");
    }
    if let Some(b) = d.bits {
        let _ = writeln!(s, "#[bits({b})]");
    }
    if d.id % 5 == 3 {
        s.push_str("#[doc = \"widths and codes are generated\"]\n");
    }
    s.push_str("#[repr(u8)]\n");
    let _ = writeln!(s, "pub enum {} {{", d.name);
    for (vi, v) in d.variants.iter().enumerate() {
        let deco = (v.disc as usize + vi + d.id) % 7;
        if deco == 1 {
            let _ = writeln!(s, "    /// the symbol `{}`", v.ident);
        }
        if deco == 2 {
            s.push_str("    #[allow(dead_code)]\n");
        }
        // display before the alternatives, or after them
        let display_last = (v.disc as usize + vi) % 3 == 2;
        if let (Some(c), false) = (v.display, display_last) {
            let _ = writeln!(s, "    #[display({})]", render_char(c));
        }
        if deco == 3 {
            let _ = writeln!(s, "    /// code {}", v.disc);
        }
        if !v.alts.is_empty() {
            // one attribute with all alternatives, or one attribute per group (the declaration means the same)
            let split = v.alts.len() >= 2 && (v.disc as usize + v.alts.len()) % 2 == 0;
            if split {
                let _ = writeln!(s, "    #[alt({})]", v.alts[0].1);
                let _ = writeln!(s, "    #[alt({})]", v.alts[1..].iter().map(|a| a.1.clone()).collect::<Vec<_>>().join(", "));
            } else {
                let _ = writeln!(s, "    #[alt({})]", v.alts.iter().map(|a| a.1.clone()).collect::<Vec<_>>().join(", "));
            }
        }
        if let (Some(c), true) = (v.display, display_last) {
            let _ = writeln!(s, "    #[display({})]", render_char(c));
        }
        if deco == 4 {
            s.push_str("    #[doc = \"documented after its helper attributes\"]\n");
        }
        let _ = writeln!(s, "    {} = {},", v.ident, v.disc_src);
    }
    s.push_str("}\n");
    s
}

fn expected_tables(d: &EnumDecl) -> (u8, [i16; 256], [i16; 256], Vec<u8>, Vec<u8>) {
    let max = d.variants.iter().map(|v| v.disc).max().unwrap();
    let bits = d.bits.unwrap_or(min_width(max));
    let mut fb = [-1i16; 256];
    let mut fa = [-1i16; 256];
    let mut tb = vec![];
    let mut tc = vec![];
    for (i, v) in d.variants.iter().enumerate() {
        fb[v.disc as usize] = i as i16;
        for a in &v.alts {
            fb[a.0 as usize] = i as i16;
        }
        let ch = v.display.unwrap_or(v.ident.as_bytes()[0]);
        fa[ch as usize] = i as i16;
        tb.push(v.disc);
        tc.push(ch);
    }
    (bits, fb, fa, tb, tc)
}

fn arr(a: &[i16; 256]) -> String {
    format!("[{}]", a.iter().map(|x| x.to_string()).collect::<Vec<_>>().join(","))
}

/// positive program: well-formed declarations with their expected tables
pub fn gen_c17_pos(seed: u64, n: usize) -> (String, Vec<EnumDecl>) {
    let mut r = runner(seed ^ 0xc17);
    // fixed boundary declarations: largest discriminant 255, 128, 127, 1; explicit widths
    let mut two_attrs = mk_fixed(10, &[("A", 0, "0"), ("C", 1, "1"), ("G", 4, "0b100")], Some(4));
    two_attrs.variants[0].alts = vec![(2, "2".into()), (3, "0x3".into()), (9, "9".into())];
    two_attrs.variants[2].alts = vec![(6, "b'\\x06'".into()), (7, "0b111".into())];
    let mut ascii_coded = mk_fixed(11, &[("A", b'A', "b'A'"), ("C", b'C', "b'C'"), ("G", b'G', "b'G'"), ("T", b'T', "b'T'")], None);
    ascii_coded.variants[0].alts = vec![(b'a', "b'a'".into())];
    ascii_coded.variants[3].alts = vec![(b't', "b't'".into()), (b'U', "b'U'".into())];
    two_attrs.variants[2].display = Some(b'*');
    let mut fixed: Vec<EnumDecl> = vec![
        mk_fixed(0, &[("A", 0, "0"), ("B", 255, "255")], None),
        mk_fixed(1, &[("A", 0, "0b0"), ("B", 255, "0xff")], Some(8)),
        mk_fixed(2, &[("L", 127, "127"), ("M", 1, "1")], None),
        mk_fixed(3, &[("L", 128, "0b1000_0000"), ("M", 3, "3")], None),
        mk_fixed(4, &[("P", 0, "0"), ("Q", 1, "1")], None),
        mk_fixed(5, &[("P", 0, "0"), ("Q", 1, "1")], Some(8)),
        mk_fixed(6, &[("A", 0b00, "0b00"), ("C", 0b01, "0b01"), ("G", 0b10, "0b10"), ("T", 0b11, "0b11")], None),
        mk_fixed(7, &[("W", 254, "254"), ("Z", 2, "b'\\x02'")], None),
        mk_fixed(8, &[("W", 4, "4"), ("Z", 2, "2")], Some(3)),
        mk_fixed(9, &[("W", 7, "0o7"), ("Z", 2, "2")], Some(3)),
    ];
    fixed.push(two_attrs);
    fixed.push(ascii_coded);
    let mut list = vec![];
    for i in 0..n {
        list.push(if i < fixed.len() { fixed[i].clone() } else { finish(i, sample(&mut r, &decl_strategy())) });
    }
    render_c17_pos(list)
}

pub fn render_c17_pos(list: Vec<EnumDecl>) -> (String, Vec<EnumDecl>) {
    let mut src = String::from(PRELUDE);
    let mut decls = vec![];
    for (i, mut d) in list.into_iter().enumerate() {
        d.id = i;
        d.name = format!("E{i}");
        let text = render_enum(&d);
        d.line_start = src.lines().count() + 1;
        src.push_str(&text);
        d.line_end = src.lines().count();
        d.source = text;
        // test strings: valid ones over the display characters, invalid ones with a known first bad byte
        let (bits, fb, fa, tb, tc) = expected_tables(&d);
        let chars: Vec<u8> = tc.clone();
        let mut valid = vec![String::new()];
        for len in [1usize, 7, 33, 70] {
            valid.push((0..len).map(|j| chars[(j * 7 + len + i) % chars.len()] as char).collect());
        }
        let refused: Vec<u8> = (0x20u8..0x7f).filter(|b| fa[*b as usize] < 0).collect();
        let mut invalid = vec![];
        if let Some(&bad) = refused.get(i % refused.len().max(1)) {
            let base: String = valid[3].clone();
            let mut s = base.clone();
            s.insert(20, bad as char);
            invalid.push((s, bad));
            invalid.push(((bad as char).to_string(), bad));
            if refused.len() >= 2 {
                let bad2 = refused[(i + 1) % refused.len()];
                let mut s2 = base.clone();
                s2.insert(30, bad as char);
                s2.insert(5, bad2 as char);
                invalid.push((s2, bad2));
            }
        }
        let _ = writeln!(
            src,
            "fn item_{i}() -> Result<(), String> {{\n    const FB: [i16; 256] = {};\n    const FA: [i16; 256] = {};\n    check_codec::<{}>({bits}, &FB, &FA, &{tb:?}, &{tc:?}, &{valid:?}, &{invalid:?})\n}}",
            arr(&fb),
            arr(&fa),
            d.name
        );
        decls.push(d);
    }
    src.push_str("fn main() {\n");
    for d in &decls {
        let _ = writeln!(src, "    guard({}, item_{});", d.id, d.id);
    }
    src.push_str("    println!(\"{{\\\"done\\\":true}}\");\n}\n");
    (src, decls)
}

fn mk_fixed(id: usize, vs: &[(&str, u8, &str)], bits: Option<u8>) -> EnumDecl {
    let variants = vs.iter().map(|(n, d, s)| Variant { ident: n.to_string(), disc: *d, disc_src: s.to_string(), alts: vec![], display: None }).collect();
    EnumDecl { id, name: format!("E{id}"), variants, bits, valid: true, why_invalid: String::new(), line_start: 0, line_end: 0, nontrivial: true, source: String::new() }
}

/// negative program: declarations that cannot be honoured, each in its own line range, with valid controls
pub fn gen_c17_neg(seed: u64, n: usize) -> (String, Vec<EnumDecl>) {
    let mut r = runner(seed ^ 0xbad17);
    let mut src = String::from("#![allow(dead_code, non_camel_case_types, unused_imports)]\nuse bio_seq::prelude::*;\n");
    let mut decls = vec![];
    for i in 0..n {
        let mut d = finish(i, sample(&mut r, &decl_strategy()));
        d.id = i;
        d.name = format!("N{i}");
        let kind = i % 10;
        let mut text;
        if kind == 9 {
            // control: a valid declaration
            text = render_enum(&d);
        } else {
            d.valid = false;
            let max = d.variants.iter().map(|v| v.disc).max().unwrap();
            let minw = min_width(max);
            match kind {
                0 | 1 if minw >= 2 => {
                    // width below the minimum
                    d.bits = Some(if kind == 0 { minw - 1 } else { 1 });
                    d.why_invalid = format!("declared width {} but the largest discriminant {max} needs {minw} bits", d.bits.unwrap());
                    text = render_enum(&d);
                }
                2 => {
                    d.why_invalid = "a variant has no discriminant".into();
                    let k = d.variants.len() / 2;
                    d.variants[k].disc_src = String::new();
                    text = render_enum(&d).replace(&format!("    {} = ,", d.variants[k].ident), &format!("    {},", d.variants[k].ident));
                }
                3 => {
                    d.why_invalid = "float discriminant".into();
                    d.variants[0].disc_src = "1.5".into();
                    text = render_enum(&d);
                }
                4 => {
                    d.why_invalid = "string discriminant".into();
                    d.variants[0].disc_src = "\"A\"".into();
                    text = render_enum(&d);
                }
                5 => {
                    d.why_invalid = "bool discriminant".into();
                    d.variants[0].disc_src = "true".into();
                    text = render_enum(&d);
                }
                6 => {
                    d.why_invalid = "negative or out-of-range discriminant".into();
                    d.variants[0].disc_src = if i % 20 < 10 { "-1".into() } else { "256".into() };
                    text = render_enum(&d);
                }
                7 => {
                    d.why_invalid = "Codec derived on a struct".into();
                    text = format!("#[derive(Clone, Copy, Debug, PartialEq, Eq, Hash, Codec)]\npub struct {} {{\n    pub code: u8,\n}}\n", d.name);
                }
                8 => {
                    d.why_invalid = "Codec derived on a union".into();
                    text = format!("#[derive(Clone, Copy, Codec)]\npub union {} {{\n    pub code: u8,\n    pub other: u8,\n}}\n", d.name);
                }
                _ => {
                    // minw < 2: fall back to a missing discriminant
                    d.why_invalid = "a variant has no discriminant".into();
                    d.bits = None;
                    let k = 0;
                    d.variants[k].disc_src = String::new();
                    text = render_enum(&d).replace(&format!("    {} = ,", d.variants[k].ident), &format!("    {},", d.variants[k].ident));
                }
            }
        }
        d.line_start = src.lines().count() + 1;
        if !text.ends_with('\n') {
            text.push('\n');
        }
        src.push_str(&text);
        d.line_end = src.lines().count();
        d.source = text;
        d.nontrivial = !d.valid;
        decls.push(d);
    }
    src.push_str("fn main() {}\n");
    (src, decls)
}

pub fn model_for(kind: &str) -> &'static Model {
    if kind == "iupac" {
        CodecId::Iupac.model()
    } else {
        CodecId::Dna.model()
    }
}

/// a program with exactly one item (replay / minimisation unit): `bsv gen-one <what> <item.json> <outdir>`
pub fn generate_one(what: &str, item_json: &str, outdir: &str) -> Result<(), String> {
    std::fs::create_dir_all(format!("{outdir}/src")).map_err(|e| e.to_string())?;
    let (src, items): (String, serde_json::Value) = match what {
        "c16pos" => {
            let it: LitItem = serde_json::from_str(item_json).map_err(|e| e.to_string())?;
            let (s, i) = render_c16_pos(&[(it.kind, it.text)]);
            (s, serde_json::to_value(i).unwrap())
        }
        "c16neg" => {
            let it: LitItem = serde_json::from_str(item_json).map_err(|e| e.to_string())?;
            let (s, i) = render_c16_neg(&[(it.kind, it.text, it.valid, it.nontrivial)]);
            (s, serde_json::to_value(i).unwrap())
        }
        "c17pos" => {
            let d: EnumDecl = serde_json::from_str(item_json).map_err(|e| e.to_string())?;
            let (s, i) = render_c17_pos(vec![d]);
            (s, serde_json::to_value(i).unwrap())
        }
        "c17neg" => {
            let mut d: EnumDecl = serde_json::from_str(item_json).map_err(|e| e.to_string())?;
            let mut s = String::from("#![allow(dead_code, non_camel_case_types, unused_imports)]\nuse bio_seq::prelude::*;\n");
            d.line_start = s.lines().count() + 1;
            s.push_str(&d.source);
            d.line_end = s.lines().count();
            s.push_str("fn main() {}\n");
            (s, serde_json::to_value(vec![d]).unwrap())
        }
        _ => return Err(format!("unknown generator {what}")),
    };
    std::fs::write(format!("{outdir}/src/main.rs"), src).map_err(|e| e.to_string())?;
    std::fs::write(format!("{outdir}/items.json"), serde_json::to_string(&items).unwrap()).map_err(|e| e.to_string())?;
    Ok(())
}

/// command line entry: `bsv gen <what> <seed> <n> <outdir>` writes main.rs and items.json
pub fn generate(what: &str, seed: u64, n: usize, outdir: &str) -> Result<(), String> {
    std::fs::create_dir_all(format!("{outdir}/src")).map_err(|e| e.to_string())?;
    let (src, items): (String, serde_json::Value) = match what {
        "c16pos" => {
            let (s, i) = gen_c16_pos(seed, n);
            (s, serde_json::to_value(i).unwrap())
        }
        "c16neg" => {
            let (s, i) = gen_c16_neg(seed, n);
            (s, serde_json::to_value(i).unwrap())
        }
        "c17pos" => {
            let (s, i) = gen_c17_pos(seed, n);
            (s, serde_json::to_value(i).unwrap())
        }
        "c17neg" => {
            let (s, i) = gen_c17_neg(seed, n);
            (s, serde_json::to_value(i).unwrap())
        }
        _ => return Err(format!("unknown generator {what}")),
    };
    std::fs::write(format!("{outdir}/src/main.rs"), src).map_err(|e| e.to_string())?;
    std::fs::write(format!("{outdir}/items.json"), serde_json::to_string(&items).unwrap()).map_err(|e| e.to_string())?;
    Ok(())
}
