//! Binding of the hand-written models to the real bio-seq codec types, and construction of library
//! values ("representations") from model symbol vectors.

use crate::model::{CodecId, Model};
use crate::obs::{Fail, R};
use bio_seq::codec::{degenerate, masked, text};
use bio_seq::prelude::*;
use serde::{Deserialize, Serialize};

pub type DnaC = bio_seq::codec::dna::Dna;
pub type IupacC = bio_seq::codec::iupac::Iupac;
pub type AminoC = bio_seq::codec::amino::Amino;
pub type TextC = text::Dna;
pub type MDnaC = masked::Dna;
pub type MIupacC = masked::Iupac;
pub type DegenC = degenerate::Dna;

macro_rules! mk_pool {
    ($mac:ident; $($s:literal),* $(,)?) => {
        vec![ $( ($s, $mac!($s)) ),* ]
    };
}

/// static literals compiled into the harness with the working tree's macros
pub fn dna_pool() -> Vec<(&'static str, &'static SeqSlice<DnaC>)> {
    mk_pool!(dna;
    "",
    "G",
    "C",
    "TAAAG",
    "ACAATTACATAACATA",
    "TTTTTTTTTTTTTTTTTTTTTTTTTTTTTTT",
    "GAATCGCTTAAGGGTTAAGTAAGTGTGATGCA",
    "TACGCCTTTACTTGCTGTGTCCACCCCATCGGA",
    "GGGGGGGGGGGGGGGGGGGGGGGGGGGGGGGGGGGGGGGGGGGGGGGGGGGGGGGGGGGGGGG",
    "GCCCTCCTGAAGTGCGTGGACACTCGCTATGAATCTCTGATTTACCCACTCTGCCAAACTCCAG",
    "CGCGGTCAGTTCCATCACCCTAAGTAACCGAATAATGCGTTCGCTCTATTGACTACGACGCGCTC",
    "ATTCCCTTGTCGGAGAGTTATGGAACAAGGACGCTGTCTGAGACTAGAAGACAGATAGTGCACACGACCGGCGTCGGAGAAACTCTATTTGCCGCCTGAC",
    "AAGTCAATGCGATCCGTAGGGGCAGCGCAGTATGCCAAGACTATAGGCACTGTCGCATCACAAACGATTAACTGATAAATGAGCCCTTTATGACACGGGCATATGACTGGTTTACGATAGTATGTCCAACG",
)
}

pub fn iupac_pool() -> Vec<(&'static str, &'static SeqSlice<IupacC>)> {
    mk_pool!(iupac;
    "",
    "N",
    "-",
    "KTDW-",
    "ACGTRYSWKMBDHVN",
    "ACGTRYSWKMBDHVN-",
    "VKCKTCMRWKVBSDVAH",
    "NNNNNNNNNNNNNNNNNNNNNNNNNNNNNNN",
    "BNVRSWGYBGBWDKSAVHVSHKBC-KDRSGKW",
    "HHNVMARCV--AGHNNWTWRRTNGCARWCMRKV",
    "TTGMSHKWAAMNKBW-WWAVMCAS-VGKWVDW-CBVDHSAMGS-SMSWNWKMT-YW-VCRHCS",
    "ARVCCYHNBTGYBSYNCMHDBNYTAGKGDVTSHDMVGC-SDNSBD-AVWHCHCNGCKSGBDKBC",
    "KBKMAGAWT-NHKV-R-YAMRWBBNDGSHYWVGC-BYVTGKGSTV-NYWRVNWTMMKKDKKSNWY",
    "WWRMSBGHKWWTNCTA-WNDCMWTCSSGDYNKATDSCDBRCSKCSABVDYMGSC--GVTHRGYHKVMMVCMDVVADSHHSAVYVTGHDNYRACRHGDYRD",
)
}

/// A bio-seq codec type together with its hand-written model.
pub trait Cm: Codec + 'static {
    const ID: CodecId;
    fn pool() -> Vec<(&'static str, &'static SeqSlice<Self>)> {
        vec![]
    }
}
impl Cm for DnaC {
    const ID: CodecId = CodecId::Dna;
    fn pool() -> Vec<(&'static str, &'static SeqSlice<Self>)> {
        dna_pool()
    }
}
impl Cm for IupacC {
    const ID: CodecId = CodecId::Iupac;
    fn pool() -> Vec<(&'static str, &'static SeqSlice<Self>)> {
        iupac_pool()
    }
}
impl Cm for AminoC {
    const ID: CodecId = CodecId::Amino;
}
impl Cm for TextC {
    const ID: CodecId = CodecId::Text;
}
impl Cm for MDnaC {
    const ID: CodecId = CodecId::MDna;
}
impl Cm for MIupacC {
    const ID: CodecId = CodecId::MIupac;
}
impl Cm for DegenC {
    const ID: CodecId = CodecId::Degen;
}
pub type TriC = crate::custom::Tri;
pub type SeptC = crate::custom::Sept;
impl Cm for TriC {
    const ID: CodecId = CodecId::Tri;
}
impl Cm for SeptC {
    const ID: CodecId = CodecId::Sept;
}
pub type DuoC = crate::custom::Duo;
impl Cm for DuoC {
    const ID: CodecId = CodecId::Duo;
}
pub type UnoC = crate::custom::Uno;
impl Cm for UnoC {
    const ID: CodecId = CodecId::Uno;
}
pub type OctC = crate::custom::Oct;
impl Cm for OctC {
    const ID: CodecId = CodecId::Oct;
}

/// run `$body` with the type alias `$C` bound to the codec type named by `$id`
#[macro_export]
macro_rules! with_codec {
    ($id:expr, $C:ident, $body:expr) => {
        match $id {
            $crate::model::CodecId::Dna => {
                type $C = $crate::codecs::DnaC;
                $body
            }
            $crate::model::CodecId::Iupac => {
                type $C = $crate::codecs::IupacC;
                $body
            }
            $crate::model::CodecId::Amino => {
                type $C = $crate::codecs::AminoC;
                $body
            }
            $crate::model::CodecId::Text => {
                type $C = $crate::codecs::TextC;
                $body
            }
            $crate::model::CodecId::MDna => {
                type $C = $crate::codecs::MDnaC;
                $body
            }
            $crate::model::CodecId::MIupac => {
                type $C = $crate::codecs::MIupacC;
                $body
            }
            $crate::model::CodecId::Degen => {
                type $C = $crate::codecs::DegenC;
                $body
            }
            $crate::model::CodecId::Tri => {
                type $C = $crate::codecs::TriC;
                $body
            }
            $crate::model::CodecId::Sept => {
                type $C = $crate::codecs::SeptC;
                $body
            }
            $crate::model::CodecId::Oct => {
                type $C = $crate::codecs::OctC;
                $body
            }
            $crate::model::CodecId::Duo => {
                type $C = $crate::codecs::DuoC;
                $body
            }
            $crate::model::CodecId::Uno => {
                type $C = $crate::codecs::UnoC;
                $body
            }
        }
    };
}

/// complementable codecs only
#[macro_export]
macro_rules! with_comp_codec {
    ($id:expr, $C:ident, $body:expr) => {
        match $id {
            $crate::model::CodecId::Dna => {
                type $C = $crate::codecs::DnaC;
                $body
            }
            $crate::model::CodecId::Iupac => {
                type $C = $crate::codecs::IupacC;
                $body
            }
            $crate::model::CodecId::MDna => {
                type $C = $crate::codecs::MDnaC;
                $body
            }
            $crate::model::CodecId::MIupac => {
                type $C = $crate::codecs::MIupacC;
                $body
            }
            $crate::model::CodecId::Degen => {
                type $C = $crate::codecs::DegenC;
                $body
            }
            other => panic!("codec {:?} has no complement", other),
        }
    };
}

pub const COMP_CODECS: [CodecId; 5] = [CodecId::Dna, CodecId::Iupac, CodecId::MDna, CodecId::MIupac, CodecId::Degen];

/// symbol table of a codec, indexed by model code; built from `items()`
pub struct Syms<C: Cm> {
    by_code: Vec<Option<C>>,
    pub m: &'static Model,
}

impl<C: Cm> Syms<C> {
    pub fn new() -> R<Syms<C>> {
        let m = C::ID.model();
        let mut by_code: Vec<Option<C>> = vec![None; 256];
        for it in C::items() {
            by_code[it.to_bits() as usize] = Some(it);
        }
        for (code, ch) in &m.syms {
            if by_code[*code as usize].is_none() {
                return Err(Fail {
                    site: "symtable".into(),
                    msg: format!("codec {}: items() has no symbol with documented code {code:#b} ('{}')", C::ID.name(), *ch as char),
                });
            }
        }
        Ok(Syms { by_code, m })
    }
    pub fn sym(&self, code: u8) -> C {
        self.by_code[code as usize].unwrap_or_else(|| panic!("harness: code {code} not a canonical symbol of {}", C::ID.name()))
    }
    pub fn vec(&self, codes: &[u8]) -> Vec<C> {
        codes.iter().map(|&c| self.sym(c)).collect()
    }
    pub fn seq(&self, codes: &[u8]) -> Seq<C> {
        codes.iter().map(|&c| self.sym(c)).collect()
    }
    pub fn text(&self, codes: &[u8]) -> String {
        self.m.text(codes)
    }
    pub fn bits(&self) -> usize {
        self.m.bits
    }
}

/// observed codes of a slice, through the public iterator
pub fn codes_of<C: Cm>(s: &SeqSlice<C>) -> Vec<u8> {
    s.iter().map(|x| x.to_bits()).collect()
}

// ---------------------------------------------------------------------------------------------
// representations

#[derive(Clone, Debug, Serialize, Deserialize, PartialEq)]
pub enum Repr {
    /// `iter.collect::<Seq<_>>()`
    Collect,
    /// `Seq::try_from(text)`
    Parse,
    /// `Seq::from(&Vec<A>)`
    FromVec,
    /// `Seq::with_capacity(cap)` then `extend`
    WithCap(u16),
    /// `Seq::new()` then `push` one at a time
    PushEach,
    /// `parent[pre .. pre+n].to_owned()` with random flanks
    OffsetOwned { pre: Vec<u8>, post: Vec<u8> },
    /// clone of an offset-born sequence
    OffsetClone { pre: Vec<u8>, post: Vec<u8> },
    /// borrowed window `&parent[pre .. pre+n]`
    Slice { pre: Vec<u8>, post: Vec<u8> },
    /// `&window & &other_copy_of_the_same_content` (bitwise result, left operand at an offset)
    AndSelf { pre: Vec<u8>, pre2: Vec<u8> },
    /// `&window | &other_copy`
    OrSelf { pre: Vec<u8>, pre2: Vec<u8> },
    /// collected, then reversed in place twice
    Rev2,
    /// `window.to_rev().to_rev()`
    ToRev2 { pre: Vec<u8> },
    /// collected, junk inserted at a position and removed again
    Edited { junk: Vec<u8>, at: u16 },
    /// parent = pre ++ codes, then `remove(..pre.len())`
    RemovedPrefix { pre: Vec<u8> },
    /// parent = codes ++ post, then `truncate(n)`
    Truncated { post: Vec<u8> },
    /// first part collected, rest appended from a window
    Appended { split: u16, pre: Vec<u8> },
    /// rest collected, first part prepended from a window
    Prepended { split: u16, pre: Vec<u8> },
    /// `Seq::new()` (or a cleared sequence) then `insert(0, window)`
    InsertedIntoEmpty { pre: Vec<u8>, cleared: bool },
    /// `Seq::from(&BitSlice)` (the unstable constructor) of a bit slice starting `head` bits into a word
    FromBitSlice { head: u8 },
    /// junk collected, `clear()`, then the content extended (dead bits of the old content remain behind)
    Refilled { junk: Vec<u8> },
    /// first part + junk collected, `truncate(split)`, then the rest extended
    TruncExtend { split: u16, junk: Vec<u8> },
    /// one of the owned sequences obtained by collecting an iterator of borrowed windows of a parent
    /// into `Vec<Seq<_>>` (`FromIterator<&SeqSlice>`): the window starts `pre` symbols into the parent
    CollectedSlices { pre: Vec<u8>, post: Vec<u8> },
    /// static literal from the compiled-in pool (codes must equal the pool entry)
    Static(u8),
    /// `Seq::from(BitVec)` (the unstable constructor) of a bit vector whose live bits start
    /// `head` bits into its first word — only used where alignment must not matter (C02, C18)
    RawBitVec { head: u8 },
}

impl Repr {
    pub fn kind(&self) -> &'static str {
        match self {
            Repr::Collect => "collect",
            Repr::Parse => "parse",
            Repr::FromVec => "fromvec",
            Repr::WithCap(_) => "withcap",
            Repr::PushEach => "push",
            Repr::OffsetOwned { .. } => "offset_owned",
            Repr::OffsetClone { .. } => "offset_clone",
            Repr::Slice { .. } => "slice",
            Repr::AndSelf { .. } => "and",
            Repr::OrSelf { .. } => "or",
            Repr::Rev2 => "rev2",
            Repr::ToRev2 { .. } => "torev2",
            Repr::Edited { .. } => "edited",
            Repr::RemovedPrefix { .. } => "removed_prefix",
            Repr::Truncated { .. } => "truncated",
            Repr::Appended { .. } => "appended",
            Repr::Prepended { .. } => "prepended",
            Repr::InsertedIntoEmpty { .. } => "inserted_into_empty",
            Repr::FromBitSlice { .. } => "from_bitslice",
            Repr::Refilled { .. } => "refilled",
            Repr::TruncExtend { .. } => "trunc_extend",
            Repr::CollectedSlices { .. } => "collected_slices",
            Repr::Static(_) => "static",
            Repr::RawBitVec { .. } => "raw_bitvec",
        }
    }
    pub fn is_plain(&self) -> bool {
        matches!(self, Repr::Collect | Repr::Parse | Repr::FromVec | Repr::PushEach)
    }
    /// number of symbols in front of the window inside its parent (bit offset = this * BITS)
    pub fn pre_len(&self) -> usize {
        match self {
            Repr::Slice { pre, .. } => pre.len(),
            _ => 0,
        }
    }
    /// symbols in front of the content in the slice an owned value was copied from
    pub fn born_offset(&self) -> usize {
        match self {
            Repr::OffsetOwned { pre, .. } | Repr::OffsetClone { pre, .. } | Repr::AndSelf { pre, .. } | Repr::OrSelf { pre, .. } | Repr::ToRev2 { pre } | Repr::InsertedIntoEmpty { pre, .. } | Repr::Appended { pre, .. } | Repr::Prepended { pre, .. } | Repr::CollectedSlices { pre, .. } => pre.len(),
            _ => 0,
        }
    }
}

#[derive(Clone, Debug, Serialize, Deserialize, PartialEq)]
pub struct SeqSpec {
    pub codes: Vec<u8>,
    pub repr: Repr,
}

impl SeqSpec {
    pub fn plain(codes: Vec<u8>) -> SeqSpec {
        SeqSpec { codes, repr: Repr::Collect }
    }
    pub fn len(&self) -> usize {
        self.codes.len()
    }
    pub fn is_empty(&self) -> bool {
        self.codes.is_empty()
    }
    /// bit offset (mod 64) of the first symbol in the underlying storage when borrowed
    pub fn bit_offset(&self, bits: usize) -> usize {
        (self.repr.pre_len() * bits) % 64
    }
    /// does some symbol straddle a 64-bit word boundary (only possible for 5/6-bit codecs)
    pub fn straddles(&self, bits: usize) -> bool {
        let off = self.repr.pre_len() * bits;
        (0..self.codes.len()).any(|i| {
            let s = off + i * bits;
            s / 64 != (s + bits - 1) / 64
        })
    }
    /// model content of `Built::parent()`
    pub fn parent_codes(&self, m: &Model) -> Vec<u8> {
        match &self.repr {
            Repr::Slice { pre, post } => cat(&[&sane(m, pre), &sane(m, &self.codes), &sane(m, post)]),
            _ => sane(m, &self.codes),
        }
    }
    pub fn crosses_word(&self, bits: usize) -> bool {
        let off = (self.repr.pre_len() * bits) % 64;
        off + self.codes.len() * bits > 64
    }
}

pub enum Built<C: Cm> {
    Owned(Seq<C>),
    Window { parent: Seq<C>, lo: usize, hi: usize },
    Static(&'static SeqSlice<C>),
}

impl<C: Cm> Built<C> {
    pub fn slice(&self) -> &SeqSlice<C> {
        match self {
            Built::Owned(s) => s,
            Built::Window { parent, lo, hi } => &parent[*lo..*hi],
            Built::Static(s) => s,
        }
    }
    pub fn owned(&self) -> Option<&Seq<C>> {
        match self {
            Built::Owned(s) => Some(s),
            _ => None,
        }
    }
    /// an owned sequence with this content (copies a window when needed)
    pub fn into_seq(self) -> Seq<C> {
        match self {
            Built::Owned(s) => s,
            other => other.slice().to_owned(),
        }
    }
    pub fn is_static(&self) -> bool {
        matches!(self, Built::Static(_))
    }
    /// the whole underlying sequence a window was borrowed from (or the value itself)
    pub fn parent(&self) -> &SeqSlice<C> {
        match self {
            Built::Owned(s) => s,
            Built::Window { parent, .. } => parent,
            Built::Static(s) => s,
        }
    }
}

fn cat(parts: &[&[u8]]) -> Vec<u8> {
    let mut v = vec![];
    for p in parts {
        v.extend_from_slice(p);
    }
    v
}

/// keep generated flank codes inside the codec's canonical alphabet (robust under shrinking/replay edits)
fn sane(m: &Model, v: &[u8]) -> Vec<u8> {
    let codes = m.codes();
    v.iter().map(|c| if codes.contains(c) { *c } else { codes[0] }).collect()
}

/// Materialise a model sequence in the requested representation.
pub fn build<C: Cm>(sy: &Syms<C>, spec: &SeqSpec) -> R<Built<C>> {
    let b = match crate::obs::quiet_catch(|| build_raw(sy, spec)) {
        Ok(r) => r?,
        Err(_) if !spec.repr.is_plain() => {
            FALLBACKS.with(|f| f.set(f.get() + 1));
            return Ok(Built::Owned(sy.seq(&sane(sy.m, &spec.codes))));
        }
        Err(p) => return Err(Fail { site: "build/panic".into(), msg: format!("constructing a sequence panicked: {p}") }),
    };
    // A representation is only a vehicle: whether the producing operation (insert, remove, |, rev, ...)
    // is itself correct is decided by that operation's own property. If the produced content is not
    // the requested one, fall back to a plainly collected value so that a defect in one operation
    // does not raise alarms in unrelated properties.
    if !spec.repr.is_plain() {
        let want = sane(sy.m, &spec.codes);
        let ok = crate::obs::quiet_catch(|| {
            let s = b.slice();
            s.len() == want.len() && s.iter().take(want.len() + 1).map(|x| x.to_bits()).eq(want.iter().copied())
        })
        .unwrap_or(false);
        if !ok {
            FALLBACKS.with(|f| f.set(f.get() + 1));
            return Ok(Built::Owned(sy.seq(&want)));
        }
    }
    Ok(b)
}

thread_local! {
    /// how many representations had to fall back to a plain value (reported as a class by the driver)
    pub static FALLBACKS: std::cell::Cell<u64> = const { std::cell::Cell::new(0) };
}

fn build_raw<C: Cm>(sy: &Syms<C>, spec: &SeqSpec) -> R<Built<C>> {
    let m = sy.m;
    let codes = sane(m, &spec.codes);
    let n = codes.len();
    let b = match &spec.repr {
        Repr::Collect => Built::Owned(sy.seq(&codes)),
        Repr::Parse => {
            let t = m.text(&codes);
            match Seq::<C>::try_from(t.as_str()) {
                Ok(s) => Built::Owned(s),
                Err(e) => return Err(Fail { site: "build/parse".into(), msg: format!("parsing valid text {t:?} failed: {e:?}") }),
            }
        }
        Repr::FromVec => Built::Owned(Seq::from(&sy.vec(&codes))),
        Repr::WithCap(cap) => {
            let mut s = Seq::<C>::with_capacity(*cap as usize);
            s.extend(sy.vec(&codes));
            Built::Owned(s)
        }
        Repr::PushEach => {
            let mut s = Seq::<C>::new();
            for c in &codes {
                s.push(sy.sym(*c));
            }
            Built::Owned(s)
        }
        Repr::OffsetOwned { pre, post } => {
            let (pre, post) = (sane(m, pre), sane(m, post));
            let parent = sy.seq(&cat(&[&pre, &codes, &post]));
            Built::Owned(parent[pre.len()..pre.len() + n].to_owned())
        }
        Repr::OffsetClone { pre, post } => {
            let (pre, post) = (sane(m, pre), sane(m, post));
            let parent = sy.seq(&cat(&[&pre, &codes, &post]));
            let o = parent[pre.len()..pre.len() + n].to_owned();
            Built::Owned(o.clone())
        }
        Repr::Slice { pre, post } => {
            let (pre, post) = (sane(m, pre), sane(m, post));
            let parent = sy.seq(&cat(&[&pre, &codes, &post]));
            Built::Window { parent, lo: pre.len(), hi: pre.len() + n }
        }
        Repr::AndSelf { pre, pre2 } => {
            let (pre, pre2) = (sane(m, pre), sane(m, pre2));
            let p1 = sy.seq(&cat(&[&pre, &codes]));
            let p2 = sy.seq(&cat(&[&pre2, &codes]));
            Built::Owned(&p1[pre.len()..] & &p2[pre2.len()..])
        }
        Repr::OrSelf { pre, pre2 } => {
            let (pre, pre2) = (sane(m, pre), sane(m, pre2));
            let p1 = sy.seq(&cat(&[&pre, &codes]));
            let p2 = sy.seq(&cat(&[&pre2, &codes]));
            Built::Owned(&p1[pre.len()..] | &p2[pre2.len()..])
        }
        Repr::Rev2 => {
            let mut s = sy.seq(&codes);
            s.rev();
            s.rev();
            Built::Owned(s)
        }
        Repr::ToRev2 { pre } => {
            let pre = sane(m, pre);
            let p = sy.seq(&cat(&[&pre, &codes]));
            Built::Owned(p[pre.len()..].to_rev().to_rev())
        }
        Repr::CollectedSlices { pre, post } => {
            let (pre, post) = (sane(m, pre), sane(m, post));
            let p = sy.seq(&cat(&[&pre, &codes, &post]));
            // three borrowed windows of the parent, collected into owned sequences; the middle one is ours
            let windows: Vec<&SeqSlice<C>> = vec![&p[..pre.len()], &p[pre.len()..pre.len() + n], &p[pre.len() + n..]];
            let mut owned: Vec<Seq<C>> = windows.into_iter().collect();
            Built::Owned(owned.swap_remove(1))
        }
        Repr::Edited { junk, at } => {
            let junk = sane(m, junk);
            let at = (*at as usize).min(n);
            let mut s = sy.seq(&codes);
            let j = sy.seq(&junk);
            s.insert(at, &j);
            s.remove(at..at + junk.len());
            Built::Owned(s)
        }
        Repr::RemovedPrefix { pre } => {
            let pre = sane(m, pre);
            let mut s = sy.seq(&cat(&[&pre, &codes]));
            s.remove(..pre.len());
            Built::Owned(s)
        }
        Repr::Truncated { post } => {
            let post = sane(m, post);
            let mut s = sy.seq(&cat(&[&codes, &post]));
            s.truncate(n);
            Built::Owned(s)
        }
        Repr::Appended { split, pre } => {
            let pre = sane(m, pre);
            // every fifth selector: the receiver is empty (fast paths for empty receivers)
            let k = if split % 5 == 0 { 0 } else { crate::obs::scale16(*split, n) };
            let mut s = sy.seq(&codes[..k]);
            let p = sy.seq(&cat(&[&pre, &codes[k..]]));
            s.append(&p[pre.len()..]);
            Built::Owned(s)
        }
        Repr::Prepended { split, pre } => {
            let pre = sane(m, pre);
            let k = if split % 5 == 0 { n } else { crate::obs::scale16(*split, n) };
            let mut s = sy.seq(&codes[k..]);
            let p = sy.seq(&cat(&[&pre, &codes[..k]]));
            s.prepend(&p[pre.len()..]);
            Built::Owned(s)
        }
        Repr::InsertedIntoEmpty { pre, cleared } => {
            let pre = sane(m, pre);
            let mut s = if *cleared {
                let mut t = sy.seq(&pre);
                t.clear();
                t
            } else {
                Seq::<C>::new()
            };
            let p = sy.seq(&cat(&[&pre, &codes]));
            s.insert(0, &p[pre.len()..]);
            Built::Owned(s)
        }
        Repr::FromBitSlice { head } => {
            use bitvec::prelude::*;
            let head = (*head % 64) as usize;
            let mut bv: BitVec<usize, Lsb0> = BitVec::repeat(true, head);
            for c in &codes {
                for b in 0..m.bits {
                    bv.push((c >> b) & 1 == 1);
                }
            }
            bv.push(true);
            let end = head + codes.len() * m.bits;
            Built::Owned(Seq::<C>::from(&bv[head..end]))
        }
        Repr::Refilled { junk } => {
            let mut s = sy.seq(&sane(m, junk));
            s.clear();
            s.extend(sy.vec(&codes));
            Built::Owned(s)
        }
        Repr::TruncExtend { split, junk } => {
            let k = (*split as usize).min(n);
            let mut s = sy.seq(&cat(&[&codes[..k], &sane(m, junk)]));
            s.truncate(k);
            s.extend(sy.vec(&codes[k..]));
            Built::Owned(s)
        }
        Repr::RawBitVec { head } => {
            use bitvec::prelude::*;
            let head = (*head % 64) as usize;
            let mut bv: BitVec<usize, Lsb0> = BitVec::repeat(true, head);
            for c in &codes {
                for b in 0..m.bits {
                    bv.push((c >> b) & 1 == 1);
                }
            }
            // copying a sub-slice keeps its head offset inside the first word
            let shifted: BitVec<usize, Lsb0> = bv[head..].to_bitvec();
            Built::Owned(Seq::<C>::from(shifted))
        }
        Repr::Static(i) => {
            let pool = C::pool();
            match pool.get(*i as usize) {
                Some((txt, s)) if m.parse(txt.as_bytes()).ok().as_deref() == Some(&codes[..]) => Built::Static(s),
                _ => Built::Owned(sy.seq(&codes)),
            }
        }
    };
    Ok(b)
}

/// codes of a pool entry
pub fn pool_codes(id: CodecId, i: usize) -> Option<Vec<u8>> {
    let txt = match id {
        CodecId::Dna => dna_pool().get(i)?.0,
        CodecId::Iupac => iupac_pool().get(i)?.0,
        _ => return None,
    };
    id.model().parse(txt.as_bytes()).ok()
}

pub fn pool_len(id: CodecId) -> usize {
    match id {
        CodecId::Dna => dna_pool().len(),
        CodecId::Iupac => iupac_pool().len(),
        _ => 0,
    }
}
