#![allow(dead_code, unused_macros, unused_imports)]
//! Macro-instantiated tables of every (codec, K, storage) k-mer type, behind a thin generic shim that
//! returns plain data to non-generic oracle code.

use crate::codecs::*;
use crate::model::CodecId;
use crate::obs::*;
use bio_seq::kmer::KmerStorage;
use bio_seq::prelude::*;
use serde::{Deserialize, Serialize};
use std::cmp::Ordering;
use std::str::FromStr;

#[derive(Clone, Copy, Debug, PartialEq, Eq, Hash, PartialOrd, Ord, Serialize, Deserialize)]
pub enum St {
    Usize,
    U64,
    U128,
}

impl St {
    pub fn bits(self) -> usize {
        match self {
            St::Usize | St::U64 => 64,
            St::U128 => 128,
        }
    }
    pub fn name(self) -> &'static str {
        match self {
            St::Usize => "usize",
            St::U64 => "u64",
            St::U128 => "u128",
        }
    }
}

pub const ALL_ST: [St; 3] = [St::Usize, St::U64, St::U128];

/// what the harness needs from a storage integer
pub trait StorageX: KmerStorage + Copy + Ord + serde::Serialize + serde::de::DeserializeOwned + 'static {
    const ST: St;
    fn to_u128(self) -> u128;
    fn from_u128(v: u128) -> Self;
}
impl StorageX for usize {
    const ST: St = St::Usize;
    fn to_u128(self) -> u128 {
        self as u128
    }
    fn from_u128(v: u128) -> Self {
        v as usize
    }
}
impl StorageX for u64 {
    const ST: St = St::U64;
    fn to_u128(self) -> u128 {
        self as u128
    }
    fn from_u128(v: u128) -> Self {
        v as u64
    }
}
impl StorageX for u128 {
    const ST: St = St::U128;
    fn to_u128(self) -> u128 {
        self
    }
    fn from_u128(v: u128) -> Self {
        v
    }
}

/// plain-data view of one k-mer value
#[derive(Clone, Debug, PartialEq, Eq)]
pub struct KInfo {
    pub display: String,
    pub bs: u128,
    pub hash: RecHasher,
    pub len: usize,
    pub is_empty: bool,
}

#[derive(Clone, Debug, PartialEq, Eq)]
pub enum KErr {
    MismatchedLength(usize, usize),
    UnrecognisedBase(u8),
    Other(String),
}

fn kerr(e: ParseBioError) -> KErr {
    match e {
        ParseBioError::MismatchedLength(a, b) => KErr::MismatchedLength(a, b),
        ParseBioError::UnrecognisedBase(b) => KErr::UnrecognisedBase(b),
        other => KErr::Other(format!("{other:?}")),
    }
}

#[derive(Clone, Debug)]
pub enum KReq {
    /// does the type exist in the tables
    Probe,
    /// build from these K codes (collect a Seq, then `Kmer::try_from(&slice)`)
    Info(Vec<u8>),
    /// `Kmer::try_from(&slice)` of an arbitrary sequence (any length / representation)
    FromSpec(SeqSpec),
    /// `Kmer::from_str`
    FromStr(String),
    /// `Kmer::unsafe_from_seqslice` (length must be K)
    UnsafeFrom(SeqSpec),
    /// `Kmer::from(int)` (usize and u64 storage)
    FromInt(u128),
    /// k-mer of the codes compared with another sequence: ==, != against SeqSlice / &SeqSlice
    EqSlice(Vec<u8>, SeqSpec),
    /// rotated_left (true) / rotated_right (false) by n
    Rot(Vec<u8>, bool, u32),
    /// pushl (true) / pushr (false) of a symbol code
    Push(Vec<u8>, bool, u8),
    /// compare two k-mers of this type
    Cmp(Vec<u8>, Vec<u8>),
    /// sort / min / max of k-mers built from these code vectors
    Sort(Vec<Vec<u8>>),
    /// serde round trips (bincode and JSON)
    Serde(Vec<u8>),
}

#[derive(Clone, Debug)]
pub struct EqRes {
    pub kmer: KInfo,
    pub eq_slice: bool,
    pub ne_slice: bool,
    pub eq_ref: bool,
    /// `Kmer == SeqArray<A,K,1>` built from the other's codes when it has K symbols in one word
    pub eq_array: Option<(bool, bool)>,
    pub other_hash: RecHasher,
    pub other_display: String,
}

#[derive(Clone, Debug)]
pub struct CmpRes {
    pub cmp: Ordering,
    pub partial: Option<Ordering>,
    pub lt: bool,
    pub le: bool,
    pub gt: bool,
    pub ge: bool,
    pub eq: bool,
    pub ne: bool,
    pub min_is_a: bool,
    pub a: KInfo,
    pub b: KInfo,
}

#[derive(Clone, Debug)]
pub struct SerdeRes {
    pub orig: KInfo,
    pub bincode: Result<KInfo, String>,
    pub json: Result<KInfo, String>,
    pub bincode_stable: bool,
    pub json_stable: bool,
    pub bincode_eq: bool,
    pub json_eq: bool,
    pub json_text: String,
}

#[derive(Clone, Debug)]
pub enum KRes {
    Probe,
    Info(KInfo),
    Built(Result<KInfo, KErr>),
    Eq(EqRes),
    Cmp(CmpRes),
    /// sorted, min, max
    Sorted(Vec<KInfo>, Option<KInfo>, Option<KInfo>),
    Serde(SerdeRes),
    Unsupported,
}

fn info<A: Cm, const K: usize, S: StorageX>(k: &Kmer<A, K, S>) -> KInfo {
    KInfo { display: k.to_string(), bs: k.bs.to_u128(), hash: rec_hash(k), len: k.len(), is_empty: k.is_empty() }
}

fn mk<A: Cm, const K: usize, S: StorageX>(sy: &Syms<A>, codes: &[u8]) -> R<Kmer<A, K, S>> {
    let s = sy.seq(codes);
    match Kmer::<A, K, S>::try_from(&s[..]) {
        Ok(k) => Ok(k),
        Err(e) => Err(Fail { site: "kmer_build".into(), msg: format!("Kmer::<{},{},{}>::try_from of {} symbols failed: {e:?}", A::ID.name(), K, S::ST.name(), codes.len()) }),
    }
}

#[inline(never)]
fn kgen<A: Cm, const K: usize, S: StorageX>(req: &KReq) -> R<KRes> {
    let sy = Syms::<A>::new()?;
    Ok(match req {
        KReq::Probe => KRes::Probe,
        KReq::Info(codes) => KRes::Info(info(&mk::<A, K, S>(&sy, codes)?)),
        KReq::FromSpec(spec) => {
            let b = build(&sy, spec)?;
            KRes::Built(Kmer::<A, K, S>::try_from(b.slice()).map(|k| info(&k)).map_err(kerr))
        }
        KReq::FromStr(s) => KRes::Built(Kmer::<A, K, S>::from_str(s).map(|k| info(&k)).map_err(kerr)),
        KReq::UnsafeFrom(spec) => {
            let b = build(&sy, spec)?;
            KRes::Info(info(&Kmer::<A, K, S>::unsafe_from_seqslice(b.slice())))
        }
        KReq::FromInt(_) => KRes::Unsupported,
        KReq::EqSlice(codes, other) => {
            let k = mk::<A, K, S>(&sy, codes)?;
            let b = build(&sy, other)?;
            let sl = b.slice();
            let eq_array = if other.codes.len() == K && K * (A::BITS as usize) <= 64 {
                let word = crate::model::pack_u128(&other.codes, A::BITS as usize) as usize;
                let arr: SeqArray<A, K, 1> = SeqArray { _p: core::marker::PhantomData, ba: bitvec::array::BitArray::new([word]) };
                Some((k == arr, k == &arr))
            } else {
                None
            };
            KRes::Eq(EqRes { kmer: info(&k), eq_slice: k == *sl, ne_slice: k != *sl, eq_ref: k == sl, eq_array, other_hash: rec_hash(sl), other_display: sl.to_string() })
        }
        KReq::Rot(codes, left, n) => {
            let k = mk::<A, K, S>(&sy, codes)?;
            KRes::Info(info(&if *left { k.rotated_left(*n) } else { k.rotated_right(*n) }))
        }
        KReq::Push(codes, left, c) => {
            let k = mk::<A, K, S>(&sy, codes)?;
            let s = sy.sym(*c);
            KRes::Info(info(&if *left { k.pushl(s) } else { k.pushr(s) }))
        }
        KReq::Cmp(..) | KReq::Sort(..) => KRes::Unsupported,
        KReq::Serde(codes) => {
            let k = mk::<A, K, S>(&sy, codes)?;
            let bytes = bincode::serialize(&k).map_err(|e| Fail { site: "serde/bincode_ser".into(), msg: format!("bincode::serialize failed: {e}") })?;
            let back: Result<Kmer<A, K, S>, String> = bincode::deserialize(&bytes).map_err(|e| e.to_string());
            let text = serde_json::to_string(&k).map_err(|e| Fail { site: "serde/json_ser".into(), msg: format!("serde_json::to_string failed: {e}") })?;
            let jback: Result<Kmer<A, K, S>, String> = serde_json::from_str(&text).map_err(|e| e.to_string());
            // other entry points of the same formats must agree with the primary ones
            let jreader: Result<Kmer<A, K, S>, String> = serde_json::from_reader(text.as_bytes()).map_err(|e| e.to_string());
            // serde_json's value tree cannot hold integers above u64::MAX (a limit of that crate's
            // Value type, not of the k-mer): that path is only compared when the tree can be built
            let jvalue: Result<Kmer<A, K, S>, String> = match serde_json::to_value(&k) {
                Ok(v) => serde_json::from_value(v).map_err(|e| e.to_string()),
                Err(_) => jback.clone(),
            };
            let breader: Result<Kmer<A, K, S>, String> = bincode::deserialize_from(&bytes[..]).map_err(|e| e.to_string());
            let jback = match (jback, jreader, jvalue) {
                (Ok(a), Ok(b), Ok(c)) if a == b && b == c => Ok(a),
                (Ok(_), Ok(_), Ok(_)) => Err("from_str, from_reader and from_value disagree".to_string()),
                (a, b, c) => Err(format!("from_str: {:?}; from_reader: {:?}; from_value: {:?}", a.err(), b.err(), c.err())),
            };
            let back = match (back, breader) {
                (Ok(a), Ok(b)) if a == b => Ok(a),
                (Ok(_), Ok(_)) => Err("deserialize and deserialize_from disagree".to_string()),
                (a, b) => Err(format!("deserialize: {:?}; deserialize_from: {:?}", a.err(), b.err())),
            };
            KRes::Serde(SerdeRes {
                orig: info(&k),
                bincode_stable: back.as_ref().map(|b| bincode::serialize(b).ok() == Some(bytes.clone())).unwrap_or(false),
                json_stable: jback.as_ref().map(|b| serde_json::to_string(b).ok() == Some(text.clone())).unwrap_or(false),
                bincode_eq: back.as_ref().map(|b| *b == k && k == *b).unwrap_or(false),
                json_eq: jback.as_ref().map(|b| *b == k && k == *b).unwrap_or(false),
                bincode: back.map(|b| info(&b)),
                json: jback.map(|b| info(&b)),
                json_text: text,
            })
        }
    })
}


/// ordering: only for codecs whose k-mers implement `Ord` (the symbol type must be `Ord`)
#[inline(never)]
fn kord<A: Cm + Ord, const K: usize, S: StorageX>(req: &KReq) -> R<KRes> {
    let sy = Syms::<A>::new()?;
    Ok(match req {
        KReq::Probe => KRes::Probe,
        KReq::Cmp(a, b) => {
            let (ka, kb) = (mk::<A, K, S>(&sy, a)?, mk::<A, K, S>(&sy, b)?);
            KRes::Cmp(CmpRes {
                cmp: ka.cmp(&kb),
                partial: ka.partial_cmp(&kb),
                lt: ka < kb,
                le: ka <= kb,
                gt: ka > kb,
                ge: ka >= kb,
                eq: ka == kb,
                ne: ka != kb,
                min_is_a: std::cmp::min(ka, kb) == ka,
                a: info(&ka),
                b: info(&kb),
            })
        }
        KReq::Sort(list) => {
            let mut v: Vec<Kmer<A, K, S>> = vec![];
            for c in list {
                v.push(mk::<A, K, S>(&sy, c)?);
            }
            let mn = v.iter().min().map(info);
            let mx = v.iter().max().map(info);
            v.sort();
            KRes::Sorted(v.iter().map(info).collect(), mn, mx)
        }
        _ => KRes::Unsupported,
    })
}

// ---------------------------------------------------------------------------------------------
// usize-backed k-mers: integer conversion, Deref, Seq conversion, reverse, k-mer iteration

#[derive(Clone, Debug)]
pub enum UReq {
    /// `Kmer::from(usize)`
    FromInt(usize),
    /// everything observable about one k-mer built from codes
    Views(Vec<u8>),
    /// `Kmer::try_from(Seq)` (owned)
    TryFromSeq(SeqSpec),
    /// `kmer == Seq`, `kmer == &str`
    EqSeqStr(Vec<u8>, SeqSpec, String),
    /// to_rev / in-place rev
    Rev(Vec<u8>),
    /// `slice.kmers::<K>()` over a sequence: items (bounded by n+2), agreement with windows(K)
    Iter(SeqSpec),
    /// `kmers::<K>()` over a sequence rebuilt from a raw word image (`count` symbols): the packed
    /// integers of the k-mers, stepped with next(), through fold, and through for_each
    IterRaw(Vec<u64>, usize),
}

#[derive(Clone, Debug)]
pub struct Views {
    pub kmer: KInfo,
    pub to_usize: usize,
    pub deref_display: String,
    pub deref_len: usize,
    pub deref_codes: Vec<u8>,
    pub deref_hash: RecHasher,
    pub asref_eq: bool,
    pub to_seq_codes: Vec<u8>,
    pub to_seq_display: String,
    pub eq_own_text: bool,
}

#[derive(Clone, Debug)]
pub struct IterRes {
    pub items: Vec<KInfo>,
    pub items_usize: Vec<usize>,
    /// item i == windows(K).nth(i), both directions that exist
    pub eq_windows: Vec<bool>,
    pub nwindows: usize,
    pub terminated: bool,
    /// nth / skip / step_by / count / last / size_hint agree with stepping by next()
    pub laws: Option<Fail>,
}

#[derive(Clone, Debug)]
pub enum URes {
    Info(KInfo),
    Views(Views),
    Built(Result<KInfo, KErr>),
    /// (kmer == seq, kmer == &str, other display)
    EqSeqStr(bool, bool, String),
    /// (to_rev, in-place rev, receiver after to_rev)
    Rev(KInfo, KInfo, KInfo),
    Iter(IterRes),
    /// (by next, by fold, by for_each, k-mer == window for each item by next, last())
    IterRaw(Vec<usize>, Vec<usize>, Vec<usize>, Vec<bool>, Option<usize>),
}

#[inline(never)]
fn kusize<A: Cm, const K: usize>(req: &UReq) -> R<URes> {
    let sy = Syms::<A>::new()?;
    Ok(match req {
        UReq::FromInt(i) => URes::Info(info(&Kmer::<A, K, usize>::from(*i))),
        UReq::Views(codes) => {
            let k = mk::<A, K, usize>(&sy, codes)?;
            let d: &SeqSlice<A> = &k;
            let r: &SeqSlice<A> = k.as_ref();
            let s: Seq<A> = Seq::from(k);
            let own = k.to_string();
            URes::Views(Views {
                kmer: info(&k),
                to_usize: usize::from(&k),
                deref_display: d.to_string(),
                deref_len: d.len(),
                deref_codes: codes_of(d),
                deref_hash: rec_hash(d),
                asref_eq: r == d && k == *r,
                to_seq_codes: codes_of(&s),
                to_seq_display: s.to_string(),
                eq_own_text: k == own.as_str(),
            })
        }
        UReq::TryFromSeq(spec) => {
            let s = build(&sy, spec)?.into_seq();
            URes::Built(Kmer::<A, K, usize>::try_from(s).map(|k| info(&k)).map_err(kerr))
        }
        UReq::EqSeqStr(codes, other, text) => {
            let k = mk::<A, K, usize>(&sy, codes)?;
            let o = build(&sy, other)?.into_seq();
            URes::EqSeqStr(k == o, k == text.as_str(), o.to_string())
        }
        UReq::Rev(codes) => {
            let k = mk::<A, K, usize>(&sy, codes)?;
            let t = k.to_rev();
            let mut m = k;
            m.rev();
            URes::Rev(info(&t), info(&m), info(&k))
        }
        UReq::IterRaw(words, count) => {
            let raw: Vec<usize> = words.iter().map(|w| *w as usize).collect();
            let s = match Seq::<A>::from_raw(*count, &raw) {
                Some(s) => s,
                None => return Err(Fail { site: "harness".into(), msg: format!("from_raw({count}, {} words) returned None", raw.len()) }),
            };
            let n = s.len();
            let by_next: Vec<Kmer<A, K>> = s.kmers::<K>().take(n + 2).collect();
            let by_fold: Vec<usize> = s.kmers::<K>().fold(vec![], |mut acc, k| {
                if acc.len() < n + 2 {
                    acc.push(usize::from(&k));
                }
                acc
            });
            let mut by_for_each: Vec<usize> = vec![];
            s.kmers::<K>().for_each(|k| {
                if by_for_each.len() < n + 2 {
                    by_for_each.push(usize::from(&k));
                }
            });
            let wins: Vec<&SeqSlice<A>> = s.windows(K).take(n + 2).collect();
            let eq = by_next.iter().zip(wins.iter()).map(|(k, w)| *k == *w && *k == **w).collect();
            let last = s.kmers::<K>().last().map(|k| usize::from(&k));
            URes::IterRaw(by_next.iter().map(|k| usize::from(k)).collect(), by_fold, by_for_each, eq, last)
        }
        UReq::Iter(spec) => {
            let b = build(&sy, spec)?;
            let sl = b.slice();
            let n = sl.len();
            let mut it = sl.kmers::<K>();
            let mut items = vec![];
            let mut raw = vec![];
            for _ in 0..n + 2 {
                match it.next() {
                    Some(k) => {
                        items.push(info(&k));
                        raw.push(k);
                    }
                    None => break,
                }
            }
            let terminated = it.next().is_none() && it.next().is_none();
            let wins: Vec<&SeqSlice<A>> = sl.windows(K).take(n + 2).collect();
            let eq_windows = raw.iter().zip(wins.iter()).map(|(k, w)| *k == *w && *k == **w).collect();
            let exp: Vec<String> = if n >= K { spec.codes.windows(K).map(|w| sy.text(w)).collect() } else { vec![] };
            let laws = if n <= 400 { crate::oracle::check_iter_laws(&|| sl.kmers::<K>(), &|k: Kmer<A, K>| k.to_string(), &exp, "kmers_laws", &[]).err() } else { None };
            URes::Iter(IterRes {
                laws,
                items_usize: raw.iter().map(|k| usize::from(k)).collect(),
                eq_windows,
                nwindows: wins.len(),
                terminated,
                items,
            })
        }
    })
}

/// min / max / sorted k-mers of a sequence through `kmers::<K>()` (codecs whose k-mers are `Ord`)
#[inline(never)]
fn kminmax<A: Cm + Ord, const K: usize>(spec: &SeqSpec) -> R<(Option<KInfo>, Option<KInfo>, Vec<KInfo>)> {
    let sy = Syms::<A>::new()?;
    let b = build(&sy, spec)?;
    let sl = b.slice();
    let n = sl.len();
    let mn = sl.kmers::<K>().take(n + 2).min().map(|k| info(&k));
    let mx = sl.kmers::<K>().take(n + 2).max().map(|k| info(&k));
    let mut v: Vec<Kmer<A, K>> = sl.kmers::<K>().take(n + 2).collect();
    v.sort();
    Ok((mn, mx, v.iter().map(info).collect()))
}

#[inline(never)]
fn ku64<A: Cm, const K: usize>(i: u128, via_usize: bool) -> R<KInfo> {
    Ok(if via_usize { info(&Kmer::<A, K, u64>::from(i as usize)) } else { info(&Kmer::<A, K, u64>::from(i as u64)) })
}

/// 2-bit DNA on usize: complement / reverse complement
#[derive(Clone, Debug)]
pub struct DnaOps {
    pub to_comp: KInfo,
    pub comp: KInfo,
    pub to_revcomp: KInfo,
    pub revcomp: KInfo,
    pub revcomp_twice: KInfo,
    pub receiver: KInfo,
    /// min(k, rc k) and min(rc k, rc rc k)
    pub canon: KInfo,
    pub canon_of_rc: KInfo,
}

#[inline(never)]
fn kdna<const K: usize>(codes: &[u8]) -> R<DnaOps> {
    let sy = Syms::<DnaC>::new()?;
    let k = mk::<DnaC, K, usize>(&sy, codes)?;
    let tc = k.to_comp();
    let mut c = k;
    c.comp();
    let trc = k.to_revcomp();
    let mut rc = k;
    rc.revcomp();
    let twice = trc.to_revcomp();
    Ok(DnaOps {
        to_comp: info(&tc),
        comp: info(&c),
        to_revcomp: info(&trc),
        revcomp: info(&rc),
        revcomp_twice: info(&twice),
        receiver: info(&k),
        canon: info(&std::cmp::min(k, trc)),
        canon_of_rc: info(&std::cmp::min(trc, twice)),
    })
}

// ---------------------------------------------------------------------------------------------
// the tables

macro_rules! arms {
    ($func:ident, $C:ty, $S:ty, $k:expr, $req:expr, [$($K:literal),*]) => {
        match $k { $( $K => Some($func::<$C, $K, $S>($req)), )* _ => None }
    };
}
macro_rules! arms2 {
    ($func:ident, $C:ty, $k:expr, [$($K:literal),*], $args:tt) => {
        match $k { $( $K => Some($func::<$C, $K> $args), )* _ => None }
    };
}

/// every storage: None when the (codec, K, storage) type is not in the tables
pub fn kcall(id: CodecId, k: usize, st: St, req: &KReq) -> Option<R<KRes>> {
    #[cfg(not(feature = "kmer-tables"))]
    {
        let _ = (id, k, st, req);
        None
    }
    #[cfg(feature = "kmer-tables")]
    {
        use CodecId::*;
        match (id, st) {
            (Dna, St::Usize) => arms!(kgen, DnaC, usize, k, req, [1, 2, 3, 4, 5, 6, 7, 8, 9, 10, 11, 12, 13, 14, 15, 16, 17, 18, 19, 20, 21, 22, 23, 24, 25, 26, 27, 28, 29, 30, 31, 32]),
            (Iupac, St::Usize) => arms!(kgen, IupacC, usize, k, req, [1, 2, 3, 4, 5, 6, 7, 8, 9, 10, 11, 12, 13, 14, 15, 16]),
            (Amino, St::Usize) => arms!(kgen, AminoC, usize, k, req, [1, 2, 3, 4, 5, 6, 7, 8, 9, 10]),
            (Text, St::Usize) => arms!(kgen, TextC, usize, k, req, [1, 2, 3, 4, 5, 6, 7, 8]),
            (MDna, St::Usize) => arms!(kgen, MDnaC, usize, k, req, [1, 2, 3, 4, 5, 6, 7, 8, 9, 10, 11, 12, 13, 14, 15, 16]),
            (MIupac, St::Usize) => arms!(kgen, MIupacC, usize, k, req, [1, 2, 3, 4, 5, 6, 7, 8, 9, 10, 11, 12]),
            (Degen, St::Usize) => arms!(
                kgen, DegenC, usize, k, req,
                [1, 2, 3, 4, 5, 6, 7, 8, 9, 10, 11, 12, 13, 14, 15, 16, 17, 18, 19, 20, 21, 22, 23, 24, 25, 26, 27, 28, 29, 30, 31, 32, 33, 34, 35, 36, 37, 38, 39, 40, 41, 42, 43, 44, 45, 46, 47, 48, 49, 50, 51, 52, 53, 54, 55, 56, 57, 58, 59, 60, 61, 62, 63, 64]
            ),
            (Dna, St::U64) => arms!(kgen, DnaC, u64, k, req, [1, 2, 3, 4, 5, 6, 7, 8, 9, 10, 11, 12, 13, 14, 15, 16, 17, 18, 19, 20, 21, 22, 23, 24, 25, 26, 27, 28, 29, 30, 31, 32]),
            (Iupac, St::U64) => arms!(kgen, IupacC, u64, k, req, [1, 2, 3, 4, 5, 6, 7, 8, 9, 10, 11, 12, 13, 14, 15, 16]),
            (Amino, St::U64) => arms!(kgen, AminoC, u64, k, req, [1, 2, 3, 4, 5, 6, 7, 8, 9, 10]),
            (Text, St::U64) => arms!(kgen, TextC, u64, k, req, [1, 2, 3, 4, 5, 6, 7, 8]),
            (MDna, St::U64) => arms!(kgen, MDnaC, u64, k, req, [1, 2, 8, 15, 16]),
            (MIupac, St::U64) => arms!(kgen, MIupacC, u64, k, req, [1, 2, 6, 11, 12]),
            (Degen, St::U64) => arms!(kgen, DegenC, u64, k, req, [1, 2, 32, 63, 64]),
            (Dna, St::U128) => arms!(
                kgen, DnaC, u128, k, req,
                [1, 2, 3, 4, 5, 6, 7, 8, 9, 10, 11, 12, 13, 14, 15, 16, 17, 18, 19, 20, 21, 22, 23, 24, 25, 26, 27, 28, 29, 30, 31, 32, 33, 34, 35, 36, 37, 38, 39, 40, 41, 42, 43, 44, 45, 46, 47, 48, 49, 50, 51, 52, 53, 54, 55, 56, 57, 58, 59, 60, 61, 62, 63, 64]
            ),
            (Iupac, St::U128) => arms!(kgen, IupacC, u128, k, req, [1, 2, 3, 4, 5, 6, 7, 8, 9, 10, 11, 12, 13, 14, 15, 16, 17, 18, 19, 20, 21, 22, 23, 24, 25, 26, 27, 28, 29, 30, 31, 32]),
            (Amino, St::U128) => arms!(kgen, AminoC, u128, k, req, [1, 2, 3, 4, 5, 6, 7, 8, 9, 10, 11, 12, 13, 14, 15, 16, 17, 18, 19, 20, 21]),
            (Text, St::U128) => arms!(kgen, TextC, u128, k, req, [1, 2, 3, 4, 5, 6, 7, 8, 9, 10, 11, 12, 13, 14, 15, 16]),
            (MDna, St::U128) => arms!(kgen, MDnaC, u128, k, req, [1, 2, 15, 16, 17, 31, 32]),
            (MIupac, St::U128) => arms!(kgen, MIupacC, u128, k, req, [1, 2, 12, 13, 14, 24, 25]),
            (Degen, St::U128) => arms!(kgen, DegenC, u128, k, req, [1, 2, 63, 64, 65, 127, 128]),
            (Tri, St::Usize) => arms!(kgen, TriC, usize, k, req, [1, 2, 3, 10, 20, 21]),
            (Tri, St::U64) => arms!(kgen, TriC, u64, k, req, [1, 2, 21]),
            (Tri, St::U128) => arms!(kgen, TriC, u128, k, req, [1, 2, 21, 22, 42]),
            (Sept, St::Usize) => arms!(kgen, SeptC, usize, k, req, [1, 2, 8, 9]),
            (Sept, St::U64) => arms!(kgen, SeptC, u64, k, req, [1, 9]),
            (Sept, St::U128) => arms!(kgen, SeptC, u128, k, req, [1, 9, 10, 18]),
            (Oct, St::Usize) => arms!(kgen, OctC, usize, k, req, [1, 2, 7, 8]),
            (Oct, St::U64) => arms!(kgen, OctC, u64, k, req, [1, 8]),
            (Oct, St::U128) => arms!(kgen, OctC, u128, k, req, [1, 8, 9, 16]),
            (Duo, St::Usize) => arms!(kgen, DuoC, usize, k, req, [1, 2, 3, 4, 5, 15, 16, 17, 31, 32]),
            (Duo, St::U64) => arms!(kgen, DuoC, u64, k, req, [1, 2, 16, 31, 32]),
            (Duo, St::U128) => arms!(kgen, DuoC, u128, k, req, [1, 2, 32, 33, 63, 64]),
            (Uno, St::Usize) => arms!(kgen, UnoC, usize, k, req, [1, 2, 7, 8, 9, 10, 16, 33, 63, 64]),
            (Uno, St::U64) => arms!(kgen, UnoC, u64, k, req, [1, 2, 8, 64]),
            (Uno, St::U128) => arms!(kgen, UnoC, u128, k, req, [1, 9, 64, 65, 128]),
        }
    }
}

/// ordering requests (Cmp, Sort) for the codecs whose k-mers are `Ord`
pub fn kcall_ord(id: CodecId, k: usize, st: St, req: &KReq) -> Option<R<KRes>> {
    #[cfg(not(feature = "kmer-tables"))]
    {
        let _ = (id, k, st, req);
        None
    }
    #[cfg(feature = "kmer-tables")]
    {
        use CodecId::*;
        match (id, st) {
            (Dna, St::Usize) => arms!(kord, DnaC, usize, k, req, [1, 2, 3, 4, 5, 6, 7, 8, 9, 10, 11, 12, 13, 14, 15, 16, 17, 18, 19, 20, 21, 22, 23, 24, 25, 26, 27, 28, 29, 30, 31, 32]),
            (Text, St::Usize) => arms!(kord, TextC, usize, k, req, [1, 2, 3, 4, 5, 6, 7, 8]),
            (MDna, St::Usize) => arms!(kord, MDnaC, usize, k, req, [1, 2, 3, 4, 5, 6, 7, 8, 9, 10, 11, 12, 13, 14, 15, 16]),
            (MIupac, St::Usize) => arms!(kord, MIupacC, usize, k, req, [1, 2, 3, 4, 5, 6, 7, 8, 9, 10, 11, 12]),
            (Degen, St::Usize) => arms!(
                kord, DegenC, usize, k, req,
                [1, 2, 3, 4, 5, 6, 7, 8, 9, 10, 11, 12, 13, 14, 15, 16, 17, 18, 19, 20, 21, 22, 23, 24, 25, 26, 27, 28, 29, 30, 31, 32, 33, 34, 35, 36, 37, 38, 39, 40, 41, 42, 43, 44, 45, 46, 47, 48, 49, 50, 51, 52, 53, 54, 55, 56, 57, 58, 59, 60, 61, 62, 63, 64]
            ),
            (Dna, St::U64) => arms!(kord, DnaC, u64, k, req, [1, 2, 3, 4, 5, 6, 7, 8, 9, 10, 11, 12, 13, 14, 15, 16, 17, 18, 19, 20, 21, 22, 23, 24, 25, 26, 27, 28, 29, 30, 31, 32]),
            (Text, St::U64) => arms!(kord, TextC, u64, k, req, [1, 2, 3, 4, 5, 6, 7, 8]),
            (MDna, St::U64) => arms!(kord, MDnaC, u64, k, req, [1, 2, 8, 15, 16]),
            (MIupac, St::U64) => arms!(kord, MIupacC, u64, k, req, [1, 2, 6, 11, 12]),
            (Degen, St::U64) => arms!(kord, DegenC, u64, k, req, [1, 2, 32, 63, 64]),
            (Dna, St::U128) => arms!(
                kord, DnaC, u128, k, req,
                [1, 2, 3, 4, 5, 6, 7, 8, 9, 10, 11, 12, 13, 14, 15, 16, 17, 18, 19, 20, 21, 22, 23, 24, 25, 26, 27, 28, 29, 30, 31, 32, 33, 34, 35, 36, 37, 38, 39, 40, 41, 42, 43, 44, 45, 46, 47, 48, 49, 50, 51, 52, 53, 54, 55, 56, 57, 58, 59, 60, 61, 62, 63, 64]
            ),
            (Text, St::U128) => arms!(kord, TextC, u128, k, req, [1, 2, 3, 4, 5, 6, 7, 8, 9, 10, 11, 12, 13, 14, 15, 16]),
            (MDna, St::U128) => arms!(kord, MDnaC, u128, k, req, [1, 2, 15, 16, 17, 31, 32]),
            (MIupac, St::U128) => arms!(kord, MIupacC, u128, k, req, [1, 2, 12, 13, 14, 24, 25]),
            (Iupac, _) | (Amino, _) => None,
            (Tri, St::Usize) => arms!(kord, TriC, usize, k, req, [1, 2, 3, 10, 20, 21]),
            (Tri, St::U64) => arms!(kord, TriC, u64, k, req, [1, 2, 21]),
            (Tri, St::U128) => arms!(kord, TriC, u128, k, req, [1, 2, 21, 22, 42]),
            (Sept, St::Usize) => arms!(kord, SeptC, usize, k, req, [1, 2, 8, 9]),
            (Sept, St::U64) => arms!(kord, SeptC, u64, k, req, [1, 9]),
            (Sept, St::U128) => arms!(kord, SeptC, u128, k, req, [1, 9, 10, 18]),
            (Oct, St::Usize) => arms!(kord, OctC, usize, k, req, [1, 2, 7, 8]),
            (Oct, St::U64) => arms!(kord, OctC, u64, k, req, [1, 8]),
            (Oct, St::U128) => arms!(kord, OctC, u128, k, req, [1, 8, 9, 16]),
            (Duo, St::Usize) => arms!(kord, DuoC, usize, k, req, [1, 2, 3, 4, 5, 15, 16, 17, 31, 32]),
            (Duo, St::U64) => arms!(kord, DuoC, u64, k, req, [1, 2, 16, 31, 32]),
            (Duo, St::U128) => arms!(kord, DuoC, u128, k, req, [1, 2, 32, 33, 63, 64]),
            (Uno, St::Usize) => arms!(kord, UnoC, usize, k, req, [1, 2, 7, 8, 9, 10, 16, 33, 63, 64]),
            (Uno, St::U64) => arms!(kord, UnoC, u64, k, req, [1, 2, 8, 64]),
            (Uno, St::U128) => arms!(kord, UnoC, u128, k, req, [1, 9, 64, 65, 128]),
            (Degen, St::U128) => arms!(kord, DegenC, u128, k, req, [1, 2, 63, 64, 65, 127, 128]),
        }
    }
}

pub fn kcall_usize(id: CodecId, k: usize, req: &UReq) -> Option<R<URes>> {
    #[cfg(not(feature = "kmer-tables"))]
    {
        let _ = (id, k, req);
        None
    }
    #[cfg(feature = "kmer-tables")]
    {
        use CodecId::*;
        match id {
            Dna => arms2!(kusize, DnaC, k, [1, 2, 3, 4, 5, 6, 7, 8, 9, 10, 11, 12, 13, 14, 15, 16, 17, 18, 19, 20, 21, 22, 23, 24, 25, 26, 27, 28, 29, 30, 31, 32], (req)),
            Iupac => arms2!(kusize, IupacC, k, [1, 2, 3, 4, 5, 6, 7, 8, 9, 10, 11, 12, 13, 14, 15, 16], (req)),
            Amino => arms2!(kusize, AminoC, k, [1, 2, 3, 4, 5, 6, 7, 8, 9, 10], (req)),
            Text => arms2!(kusize, TextC, k, [1, 2, 3, 4, 5, 6, 7, 8], (req)),
            MDna => arms2!(kusize, MDnaC, k, [1, 2, 3, 4, 5, 6, 7, 8, 9, 10, 11, 12, 13, 14, 15, 16], (req)),
            MIupac => arms2!(kusize, MIupacC, k, [1, 2, 3, 4, 5, 6, 7, 8, 9, 10, 11, 12], (req)),
            Degen => arms2!(
                kusize, DegenC, k,
                [1, 2, 3, 4, 5, 6, 7, 8, 9, 10, 11, 12, 13, 14, 15, 16, 17, 18, 19, 20, 21, 22, 23, 24, 25, 26, 27, 28, 29, 30, 31, 32, 33, 34, 35, 36, 37, 38, 39, 40, 41, 42, 43, 44, 45, 46, 47, 48, 49, 50, 51, 52, 53, 54, 55, 56, 57, 58, 59, 60, 61, 62, 63, 64], (req)),
            Tri => arms2!(kusize, TriC, k, [1, 2, 3, 10, 20, 21], (req)),
            Sept => arms2!(kusize, SeptC, k, [1, 2, 8, 9], (req)),
            Oct => arms2!(kusize, OctC, k, [1, 2, 7, 8], (req)),
            Duo => arms2!(kusize, DuoC, k, [1, 2, 3, 4, 5, 15, 16, 17, 31, 32], (req)),
            Uno => arms2!(kusize, UnoC, k, [1, 2, 7, 8, 9, 10, 16, 33, 63, 64], (req)),
        }
    }
}

pub fn kcall_minmax(id: CodecId, k: usize, spec: &SeqSpec) -> Option<R<(Option<KInfo>, Option<KInfo>, Vec<KInfo>)>> {
    #[cfg(not(feature = "kmer-tables"))]
    {
        let _ = (id, k, spec);
        None
    }
    #[cfg(feature = "kmer-tables")]
    {
        use CodecId::*;
        match id {
            Dna => arms2!(kminmax, DnaC, k, [1, 2, 3, 4, 5, 6, 7, 8, 9, 10, 11, 12, 13, 14, 15, 16, 17, 18, 19, 20, 21, 22, 23, 24, 25, 26, 27, 28, 29, 30, 31, 32], (spec)),
            Text => arms2!(kminmax, TextC, k, [1, 2, 3, 4, 5, 6, 7, 8], (spec)),
            MDna => arms2!(kminmax, MDnaC, k, [1, 2, 3, 4, 5, 6, 7, 8, 9, 10, 11, 12, 13, 14, 15, 16], (spec)),
            MIupac => arms2!(kminmax, MIupacC, k, [1, 2, 3, 4, 5, 6, 7, 8, 9, 10, 11, 12], (spec)),
            Degen => arms2!(kminmax, DegenC, k, [1, 2, 3, 4, 5, 6, 7, 8, 12, 16, 24, 31, 32, 33, 48, 63, 64], (spec)),
            Iupac | Amino => None,
            Tri => arms2!(kminmax, TriC, k, [1, 2, 3, 10, 20, 21], (spec)),
            Sept => arms2!(kminmax, SeptC, k, [1, 2, 8, 9], (spec)),
            Oct => arms2!(kminmax, OctC, k, [1, 2, 7, 8], (spec)),
            Duo => arms2!(kminmax, DuoC, k, [1, 2, 3, 4, 5, 15, 16, 17, 31, 32], (spec)),
            Uno => arms2!(kminmax, UnoC, k, [1, 2, 7, 8, 9, 10, 16, 33, 63, 64], (spec)),
        }
    }
}

/// `Kmer::<_,K,u64>::from(u64)` / `from(usize)`
pub fn kcall_u64_from_int(id: CodecId, k: usize, i: u128, via_usize: bool) -> Option<R<KInfo>> {
    #[cfg(not(feature = "kmer-tables"))]
    {
        let _ = (id, k, i, via_usize);
        None
    }
    #[cfg(feature = "kmer-tables")]
    {
        use CodecId::*;
        match id {
            Dna => arms2!(ku64, DnaC, k, [1, 2, 3, 4, 5, 6, 7, 8, 9, 10, 11, 12, 13, 14, 15, 16, 17, 18, 19, 20, 21, 22, 23, 24, 25, 26, 27, 28, 29, 30, 31, 32], (i, via_usize)),
            Iupac => arms2!(ku64, IupacC, k, [1, 2, 3, 4, 5, 6, 7, 8, 9, 10, 11, 12, 13, 14, 15, 16], (i, via_usize)),
            Amino => arms2!(ku64, AminoC, k, [1, 2, 3, 4, 5, 6, 7, 8, 9, 10], (i, via_usize)),
            Text => arms2!(ku64, TextC, k, [1, 2, 3, 4, 5, 6, 7, 8], (i, via_usize)),
            MDna => arms2!(ku64, MDnaC, k, [1, 2, 8, 15, 16], (i, via_usize)),
            MIupac => arms2!(ku64, MIupacC, k, [1, 2, 6, 11, 12], (i, via_usize)),
            Degen => arms2!(ku64, DegenC, k, [1, 2, 32, 63, 64], (i, via_usize)),
            Tri => arms2!(ku64, TriC, k, [1, 2, 21], (i, via_usize)),
            Sept => arms2!(ku64, SeptC, k, [1, 9], (i, via_usize)),
            Oct => arms2!(ku64, OctC, k, [1, 8], (i, via_usize)),
            Duo => arms2!(ku64, DuoC, k, [1, 2, 16, 31, 32], (i, via_usize)),
            Uno => arms2!(ku64, UnoC, k, [1, 2, 8, 64], (i, via_usize)),
        }
    }
}

pub fn kcall_dna(k: usize, codes: &[u8]) -> Option<R<DnaOps>> {
    #[cfg(not(feature = "kmer-tables"))]
    {
        let _ = (k, codes);
        None
    }
    #[cfg(feature = "kmer-tables")]
    {
        macro_rules! d {
            ($($K:literal),*) => { match k { $( $K => Some(kdna::<$K>(codes)), )* _ => None } };
        }
        d!(1, 2, 3, 4, 5, 6, 7, 8, 9, 10, 11, 12, 13, 14, 15, 16, 17, 18, 19, 20, 21, 22, 23, 24, 25, 26, 27, 28, 29, 30, 31, 32)
    }
}

/// all instantiated (codec, storage, K)
pub fn ktypes() -> Vec<(CodecId, St, usize)> {
    let mut v = vec![];
    for id in crate::model::ALL_CODECS {
        for st in ALL_ST {
            for k in 1..=128usize {
                if k * id.bits() <= st.bits() && kcall(id, k, st, &KReq::Probe).is_some() {
                    v.push((id, st, k));
                }
            }
        }
    }
    v
}

/// unwrap helpers for oracle code
pub fn want_info(r: Option<R<KRes>>, what: &str) -> R<KInfo> {
    match r {
        Some(Ok(KRes::Info(i))) => Ok(i),
        Some(Err(f)) => Err(f),
        other => Err(Fail { site: "harness/kmer_dispatch".into(), msg: format!("{what}: unexpected dispatch result {other:?}") }),
    }
}
